//! Case runner: sharding, write-ahead progress marker, per-case panic capture, statistics.
use crate::json::J;
use crate::monitor::{self, PanicInfo};
use crate::prng::Rng;
use std::collections::{BTreeMap, HashSet};
use std::fs::File;
use std::io::Write;
use std::path::PathBuf;

#[derive(Clone, Copy, PartialEq, Eq, Debug)]
pub enum Tier {
    Quick,
    Thorough,
}

#[derive(Clone, Debug)]
pub struct Args {
    pub prop: String,
    pub seed: u64,
    pub shard: u64,
    pub nshards: u64,
    pub tier: Tier,
    pub lane: String,
    pub only_case: Option<u64>,
    pub start_from: u64,
    pub out: Option<PathBuf>,
    pub verbose: bool,
    pub mode: String,
    pub scratch: PathBuf,
    pub scale: f64,
    pub repo: PathBuf,
}

impl Args {
    pub fn quick(&self) -> bool {
        self.tier == Tier::Quick
    }
    /// scale a count by the lane/tier factor passed by the driver (miri/asan use small factors)
    pub fn n(&self, quick: usize, thorough: usize) -> usize {
        let base = if self.quick() { quick } else { thorough } as f64;
        ((base * self.scale).ceil() as usize).max(1)
    }
    pub fn is_miri(&self) -> bool {
        cfg!(miri)
    }
}

pub const MAX_FP: usize = 1 << 20;
pub const MAX_VIOL: usize = 40;

#[derive(Default)]
pub struct Stats {
    pub evals: u64,
    pub cases_run: u64,
    pub fps: HashSet<u64>,
    pub fp_overflow: u64,
    pub situations: BTreeMap<String, u64>,
    pub outcomes: BTreeMap<String, u64>,
    pub samples: Vec<(String, J)>,
    pub violations: Vec<J>,
    pub digests: Vec<(String, u64)>,
    pub stat_max: BTreeMap<String, f64>,
    pub stat_sum: BTreeMap<String, f64>,
    pub harness_errors: Vec<String>,
    pub inconclusive: Vec<String>,
}

pub struct Case<'a> {
    pub rng: Rng,
    pub idx: u64,
    pub label: &'a str,
    pub quick: bool,
    pub verbose: bool,
    pub st: &'a mut Stats,
    viol_sink: &'a mut Option<File>,
    lane: &'a str,
    prop: &'a str,
    seed: u64,
    tier: Tier,
}

impl<'a> Case<'a> {
    pub fn eval(&mut self, n: u64) {
        self.st.evals += n;
    }
    pub fn sit(&mut self, name: &str) {
        *self.st.situations.entry(name.to_string()).or_insert(0) += 1;
    }
    pub fn outcome(&mut self, name: &str) {
        *self.st.outcomes.entry(name.to_string()).or_insert(0) += 1;
    }
    pub fn outcome_new(&mut self, name: &str) -> bool {
        let e = self.st.outcomes.entry(name.to_string()).or_insert(0);
        *e += 1;
        *e == 1
    }
    pub fn nontrivial(&mut self, fp: u64) {
        if self.st.fps.len() < MAX_FP {
            self.st.fps.insert(fp);
        } else if !self.st.fps.contains(&fp) {
            self.st.fp_overflow += 1;
        }
    }
    pub fn stat_max(&mut self, name: &str, v: f64) {
        let e = self.st.stat_max.entry(name.to_string()).or_insert(f64::MIN);
        if v > *e {
            *e = v;
        }
    }
    pub fn stat_add(&mut self, name: &str, v: f64) {
        *self.st.stat_sum.entry(name.to_string()).or_insert(0.0) += v;
    }
    pub fn digest(&mut self, key: String, d: u64) {
        self.st.digests.push((key, d));
    }
    /// keep at most one sample per key and at most 6 keys
    pub fn sample(&mut self, key: &str, f: impl FnOnce() -> J) {
        if self.st.samples.len() >= 6 || self.st.samples.iter().any(|(k, _)| k == key) {
            return;
        }
        let j = f();
        self.st.samples.push((key.to_string(), j));
    }
    pub fn inconclusive(&mut self, why: String) {
        if self.st.inconclusive.len() < 50 {
            self.st
                .inconclusive
                .push(format!("case {} [{}]: {}", self.idx, self.label, why));
        }
    }
    /// Record a violation. `sig` is the stable signature used to match known findings.
    pub fn fail(&mut self, kind: &str, sig: &str, msg: String) {
        let v = J::obj(vec![
            ("property", J::s(self.prop)),
            ("lane", J::s(self.lane)),
            ("seed", J::U(self.seed)),
            (
                "tier",
                J::s(if self.tier == Tier::Quick { "quick" } else { "thorough" }),
            ),
            ("case", J::U(self.idx)),
            ("label", J::s(self.label)),
            ("kind", J::s(kind)),
            ("signature", J::s(sig)),
            ("message", J::s(&msg)),
        ]);
        if self.verbose {
            eprintln!("[violation] case {} [{}] {} {}: {}", self.idx, self.label, kind, sig, msg);
        }
        if let Some(f) = self.viol_sink.as_mut() {
            let _ = writeln!(f, "{}", v.to_string());
            let _ = f.flush();
        }
        if self.st.violations.len() < MAX_VIOL {
            self.st.violations.push(v);
        }
    }
    /// Report a panic that escaped a library call.
    pub fn fail_panic(&mut self, what: &str, p: &PanicInfo) {
        if p.in_harness() {
            self.st
                .harness_errors
                .push(format!("case {} [{}] harness panic at {}: {}", self.idx, self.label, p.loc(), p.msg));
            return;
        }
        let sig = format!("panic@{}", p.loc());
        self.fail("panic", &sig, format!("{}: panicked at {}: {}", what, p.loc(), p.msg));
    }
    /// Like `lib`, for calls whose result is a pure function of their arguments: in guard mode
    /// (native lanes) the call is made twice, with fresh heap memory pre-filled with two different
    /// poison bytes; a result that differs depends on uninitialised memory.
    pub fn lib_stable<T: PartialEq>(&mut self, what: &str, f: impl Fn() -> T) -> Option<T> {
        self.lib_stable_by(what, f, |a, b| a == b)
    }
    /// `lib_stable` with an explicit equality (for results that do not implement PartialEq)
    pub fn lib_stable_by<T>(&mut self, what: &str, f: impl Fn() -> T, same: impl Fn(&T, &T) -> bool) -> Option<T> {
        if !monitor::guard_active() {
            return self.lib(what, f);
        }
        monitor::set_poison(0xA5);
        let r1 = self.lib(what, &f)?;
        monitor::set_poison(0x3C);
        let r2 = monitor::guarded(&f);
        monitor::set_poison(0xA5);
        self.stat_add("calls_repeated_under_a_second_poison_byte", 1.0);
        match r2 {
            Ok(v2) => {
                if !same(&v2, &r1) {
                    self.fail("uninitialised_memory", "result_depends_on_uninitialised_memory", format!("{}: the same call returned a different result when fresh heap memory was pre-filled with 0x3C instead of 0xA5", what));
                }
            }
            Err(p) => self.fail_panic(what, &p),
        }
        Some(r1)
    }
    /// Call into the library; a panic is reported as a violation and None is returned.
    pub fn lib<T>(&mut self, what: &str, f: impl FnOnce() -> T) -> Option<T> {
        match monitor::guarded(f) {
            Ok(v) => Some(v),
            Err(p) => {
                self.fail_panic(what, &p);
                None
            }
        }
    }
}

pub struct Ctx {
    pub a: Args,
    next_idx: u64,
    progress: Option<File>,
    viol_sink: Option<File>,
    pub st: Stats,
    pub stop: bool,
    pub required: Vec<String>,
    pub rule: String,
    pub notes: Vec<String>,
}

impl Ctx {
    pub fn new(a: Args) -> Ctx {
        let (progress, viol_sink) = match &a.out {
            Some(p) => {
                let mut pp = p.clone().into_os_string();
                pp.push(".progress");
                let mut vp = p.clone().into_os_string();
                vp.push(".viol");
                (
                    File::create(PathBuf::from(pp)).ok(),
                    std::fs::OpenOptions::new()
                        .create(true)
                        .append(true)
                        .open(PathBuf::from(vp))
                        .ok(),
                )
            }
            None => (None, None),
        };
        Ctx {
            a,
            next_idx: 0,
            progress,
            viol_sink,
            st: Stats::default(),
            stop: false,
            required: Vec::new(),
            rule: String::new(),
            notes: Vec::new(),
        }
    }

    pub fn require(&mut self, sits: &[&str]) {
        for s in sits {
            self.required.push(s.to_string());
        }
    }

    fn mark(&mut self, idx: u64) {
        if let Some(f) = self.progress.as_mut() {
            #[cfg(unix)]
            {
                use std::os::unix::fs::FileExt;
                let _ = f.write_at(&idx.to_le_bytes(), 0);
            }
            #[cfg(not(unix))]
            {
                let _ = f;
                let _ = idx;
            }
        }
    }

    /// Will the next case be executed by this worker? (lets callers skip expensive preparation)
    pub fn next_is_mine(&self) -> bool {
        let idx = self.next_idx;
        if self.stop {
            return false;
        }
        if let Some(o) = self.a.only_case {
            return o == idx;
        }
        idx >= self.a.start_from && idx % self.a.nshards == self.a.shard
    }

    /// Run one case. The closure receives its own RNG derived from (seed, case index), so the
    /// case is reproducible on its own (`--only-case`).
    pub fn case(&mut self, label: &str, f: impl FnOnce(&mut Case)) {
        let idx = self.next_idx;
        self.next_idx += 1;
        if self.stop {
            return;
        }
        if let Some(o) = self.a.only_case {
            if o != idx {
                return;
            }
        } else if idx < self.a.start_from || idx % self.a.nshards != self.a.shard {
            return;
        }
        self.mark(idx);
        self.st.cases_run += 1;
        self.st.evals += 1;
        let nviol_before = self.st.violations.len();
        let seed = self.a.seed;
        let res = {
            let mut c = Case {
                rng: Rng::from_parts(seed, idx),
                idx,
                label,
                quick: self.a.quick(),
                verbose: self.a.verbose,
                st: &mut self.st,
                viol_sink: &mut self.viol_sink,
                lane: &self.a.lane,
                prop: &self.a.prop,
                seed,
                tier: self.a.tier,
            };
            let r = monitor::guarded(|| f(&mut c));
            if let Err(p) = &r {
                c.fail_panic("library call", p);
            }
            r
        };
        let _ = res;
        if self.a.verbose && self.a.only_case.is_some() {
            eprintln!(
                "[replay] case {} [{}] finished; new violations: {}",
                idx,
                label,
                self.st.violations.len() - nviol_before
            );
        }
        if self.st.violations.len() >= MAX_VIOL {
            self.stop = true;
            self.notes
                .push(format!("stopped after {} violations (flood guard)", MAX_VIOL));
        }
    }

    pub fn case_count(&self) -> u64 {
        self.next_idx
    }

    pub fn summary(&self, wall: f64, completed: bool) -> J {
        J::obj(vec![
            ("property", J::s(&self.a.prop)),
            ("lane", J::s(&self.a.lane)),
            ("seed", J::U(self.a.seed)),
            ("shard", J::U(self.a.shard)),
            ("nshards", J::U(self.a.nshards)),
            ("mode", J::s(&self.a.mode)),
            (
                "tier",
                J::s(if self.a.quick() { "quick" } else { "thorough" }),
            ),
            ("completed", J::Bool(completed)),
            ("cases_total", J::U(self.next_idx)),
            ("cases_run", J::U(self.st.cases_run)),
            ("evaluations", J::U(self.st.evals)),
            ("nontrivial_distinct", J::U(self.st.fps.len() as u64)),
            ("nontrivial_overflow", J::U(self.st.fp_overflow)),
            ("situations", J::from_map_u64(&self.st.situations)),
            ("outcomes", J::from_map_u64(&self.st.outcomes)),
            (
                "samples",
                J::A(self
                    .st
                    .samples
                    .iter()
                    .map(|(k, v)| J::obj(vec![("kind", J::s(k)), ("case", v.clone())]))
                    .collect()),
            ),
            ("violations", J::A(self.st.violations.clone())),
            (
                "digests",
                J::A(self
                    .st
                    .digests
                    .iter()
                    .map(|(k, d)| J::A(vec![J::s(k), J::s(format!("{:016x}", d))]))
                    .collect()),
            ),
            (
                "stat_max",
                J::O(self
                    .st
                    .stat_max
                    .iter()
                    .map(|(k, v)| (k.clone(), J::F(*v)))
                    .collect()),
            ),
            (
                "stat_sum",
                J::O(self
                    .st
                    .stat_sum
                    .iter()
                    .map(|(k, v)| (k.clone(), J::F(*v)))
                    .collect()),
            ),
            (
                "harness_errors",
                J::A(self.st.harness_errors.iter().map(J::s).collect()),
            ),
            (
                "inconclusive",
                J::A(self.st.inconclusive.iter().map(J::s).collect()),
            ),
            ("required", J::A(self.required.iter().map(J::s).collect())),
            ("rule", J::s(&self.rule)),
            ("notes", J::A(self.notes.iter().map(J::s).collect())),
            ("wall_s", J::F(wall)),
        ])
    }

    pub fn write_out(&self, wall: f64, completed: bool) {
        let s = self.summary(wall, completed).to_string();
        match &self.a.out {
            Some(p) => {
                let mut fp = p.clone().into_os_string();
                fp.push(".fp");
                let mut buf = Vec::with_capacity(self.st.fps.len() * 8);
                for x in &self.st.fps {
                    buf.extend_from_slice(&x.to_le_bytes());
                }
                let _ = std::fs::write(PathBuf::from(fp), buf);
                let tmp = p.with_extension("tmp");
                if std::fs::write(&tmp, s.as_bytes()).is_ok() {
                    let _ = std::fs::rename(&tmp, p);
                }
            }
            None => println!("{}", s),
        }
    }
}
