//! Minimal JSON value + serializer (no external crates).
use std::collections::BTreeMap;

#[derive(Clone, Debug)]
pub enum J {
    Null,
    Bool(bool),
    I(i64),
    U(u64),
    F(f64),
    S(String),
    A(Vec<J>),
    O(Vec<(String, J)>),
}

pub fn esc(s: &str, out: &mut String) {
    out.push('"');
    for c in s.chars() {
        match c {
            '"' => out.push_str("\\\""),
            '\\' => out.push_str("\\\\"),
            '\n' => out.push_str("\\n"),
            '\r' => out.push_str("\\r"),
            '\t' => out.push_str("\\t"),
            c if (c as u32) < 0x20 => out.push_str(&format!("\\u{:04x}", c as u32)),
            c if (c as u32) > 0xFFFF => {
                let v = c as u32 - 0x10000;
                out.push_str(&format!(
                    "\\u{:04x}\\u{:04x}",
                    0xD800 + (v >> 10),
                    0xDC00 + (v & 0x3FF)
                ));
            }
            c if (c as u32) >= 0x7f => out.push_str(&format!("\\u{:04x}", c as u32)),
            c => out.push(c),
        }
    }
    out.push('"');
}

impl J {
    pub fn s<T: AsRef<str>>(x: T) -> J {
        J::S(x.as_ref().to_string())
    }
    pub fn obj(items: Vec<(&str, J)>) -> J {
        J::O(items.into_iter().map(|(k, v)| (k.to_string(), v)).collect())
    }
    pub fn from_map_u64(m: &BTreeMap<String, u64>) -> J {
        J::O(m.iter().map(|(k, v)| (k.clone(), J::U(*v))).collect())
    }
    pub fn write(&self, out: &mut String) {
        match self {
            J::Null => out.push_str("null"),
            J::Bool(b) => out.push_str(if *b { "true" } else { "false" }),
            J::I(i) => out.push_str(&i.to_string()),
            J::U(u) => out.push_str(&u.to_string()),
            J::F(f) => {
                if f.is_finite() {
                    out.push_str(&format!("{}", f))
                } else {
                    out.push_str("null")
                }
            }
            J::S(s) => esc(s, out),
            J::A(v) => {
                out.push('[');
                for (i, x) in v.iter().enumerate() {
                    if i > 0 {
                        out.push(',');
                    }
                    x.write(out);
                }
                out.push(']');
            }
            J::O(v) => {
                out.push('{');
                for (i, (k, x)) in v.iter().enumerate() {
                    if i > 0 {
                        out.push(',');
                    }
                    esc(k, out);
                    out.push(':');
                    x.write(out);
                }
                out.push('}');
            }
        }
    }
    pub fn to_string(&self) -> String {
        let mut s = String::new();
        self.write(&mut s);
        s
    }
}

pub fn hex(b: &[u8]) -> String {
    let mut s = String::with_capacity(b.len() * 2);
    for x in b {
        s.push_str(&format!("{:02x}", x));
    }
    s
}

/// hex, truncated in the middle for long inputs
pub fn hex_short(b: &[u8], max: usize) -> String {
    if b.len() <= max {
        hex(b)
    } else {
        format!(
            "{}..({} bytes)..{}",
            hex(&b[..max / 2]),
            b.len(),
            hex(&b[b.len() - max / 2..])
        )
    }
}
