//! mv-worker: runs the workload + monitors of one property (one shard of it) against the real
//! `mila` crate built from /repo's working tree. See /verif/DESIGN.md.
#![allow(clippy::all)]
#![allow(dead_code)]

mod ctx;
mod json;
mod monitor;
mod prng;
mod props;
mod refs;

use ctx::{Args, Ctx, Tier};
use std::path::PathBuf;

#[global_allocator]
static GLOBAL: monitor::MonAlloc = monitor::MonAlloc;

fn usage() -> ! {
    eprintln!(
        "usage: mv-worker <C01..C20|calibrate> [--seed N] [--shard I --nshards N] [--tier quick|thorough]\n\
         [--lane NAME] [--only-case K] [--start-from K] [--out FILE] [--mode M] [--scale F]\n\
         [--scratch DIR] [--repo DIR] [--verbose]"
    );
    std::process::exit(2)
}

#[cfg(all(target_os = "linux", not(miri)))]
fn die_with_parent() {
    // a worker whose supervisor is gone must not keep running (a seeded endless loop would spin forever)
    extern "C" {
        fn prctl(option: i32, arg2: u64, arg3: u64, arg4: u64, arg5: u64) -> i32;
    }
    const PR_SET_PDEATHSIG: i32 = 1;
    const SIGKILL: u64 = 9;
    unsafe {
        let _ = prctl(PR_SET_PDEATHSIG, SIGKILL, 0, 0, 0);
    }
}
#[cfg(not(all(target_os = "linux", not(miri))))]
fn die_with_parent() {}

fn main() {
    die_with_parent();
    let argv: Vec<String> = std::env::args().collect();
    if argv.len() < 2 {
        usage();
    }
    let mut a = Args {
        prop: argv[1].clone(),
        seed: 1,
        shard: 0,
        nshards: 1,
        tier: Tier::Quick,
        lane: "checked".into(),
        only_case: None,
        start_from: 0,
        out: None,
        verbose: false,
        mode: String::new(),
        scratch: PathBuf::from("/verif/.scratch"),
        scale: 1.0,
        repo: PathBuf::from("/repo"),
    };
    let mut i = 2;
    while i < argv.len() {
        let k = argv[i].as_str();
        let v = |i: usize| -> &str {
            if i + 1 >= argv.len() {
                usage()
            }
            argv[i + 1].as_str()
        };
        match k {
            "--seed" => {
                a.seed = v(i).parse().unwrap_or_else(|_| usage());
                i += 1
            }
            "--shard" => {
                a.shard = v(i).parse().unwrap_or_else(|_| usage());
                i += 1
            }
            "--nshards" => {
                a.nshards = v(i).parse().unwrap_or_else(|_| usage());
                i += 1
            }
            "--tier" => {
                a.tier = match v(i) {
                    "quick" => Tier::Quick,
                    "thorough" => Tier::Thorough,
                    _ => usage(),
                };
                i += 1
            }
            "--lane" => {
                a.lane = v(i).to_string();
                i += 1
            }
            "--only-case" => {
                a.only_case = Some(v(i).parse().unwrap_or_else(|_| usage()));
                i += 1
            }
            "--start-from" => {
                a.start_from = v(i).parse().unwrap_or_else(|_| usage());
                i += 1
            }
            "--out" => {
                a.out = Some(PathBuf::from(v(i)));
                i += 1
            }
            "--mode" => {
                a.mode = v(i).to_string();
                i += 1
            }
            "--scale" => {
                a.scale = v(i).parse().unwrap_or_else(|_| usage());
                i += 1
            }
            "--scratch" => {
                a.scratch = PathBuf::from(v(i));
                i += 1
            }
            "--repo" => {
                a.repo = PathBuf::from(v(i));
                i += 1
            }
            "--verbose" => a.verbose = true,
            _ => usage(),
        }
        i += 1;
    }
    if a.nshards == 0 || a.shard >= a.nshards {
        usage();
    }
    monitor::install_panic_hook(a.verbose);
    let t0 = std::time::Instant::now();
    let prop = a.prop.clone();
    let mut cx = Ctx::new(a);
    // write an "incomplete" summary first so a crash leaves something parseable
    cx.write_out(0.0, false);
    let known = props::run(&prop, &mut cx);
    if !known {
        eprintln!("unknown property {}", prop);
        std::process::exit(2);
    }
    let wall = t0.elapsed().as_secs_f64();
    if monitor::guard_active() {
        *cx.st.stat_sum.entry("allocations_served_from_the_page_fenced_pool".to_string()).or_insert(0.0) += monitor::sampled_fenced_allocations() as f64;
    }
    cx.write_out(wall, true);
    if !cx.st.harness_errors.is_empty() {
        for e in &cx.st.harness_errors {
            eprintln!("HARNESS-ERROR {}", e);
        }
        std::process::exit(3);
    }
    if !cx.st.violations.is_empty() {
        std::process::exit(1);
    }
}
