//! Process-level monitors: counting allocator (M-alloc), panic hook (M-panic), CPU clock (M-cpu).
use std::alloc::{GlobalAlloc, Layout, System};
use std::cell::RefCell;
use std::sync::atomic::{AtomicBool, AtomicUsize, Ordering};

pub struct MonAlloc;

static MAX_REQ: AtomicUsize = AtomicUsize::new(0);
static HARD_CAP: AtomicUsize = AtomicUsize::new(usize::MAX);
static TRACK: AtomicBool = AtomicBool::new(false);

#[cfg(not(miri))]
extern "C" {
    fn _exit(code: i32) -> !;
    fn write(fd: i32, buf: *const u8, n: usize) -> isize;
}

#[inline]
fn note(size: usize) {
    if TRACK.load(Ordering::Relaxed) {
        MAX_REQ.fetch_max(size, Ordering::Relaxed);
        if size > HARD_CAP.load(Ordering::Relaxed) {
            over_cap(size);
        }
    }
}

#[cold]
fn over_cap(size: usize) -> ! {
    // No allocation allowed here.
    let mut buf = [0u8; 64];
    let prefix = b"MV-ALLOC-CAP ";
    buf[..prefix.len()].copy_from_slice(prefix);
    let mut n = prefix.len();
    let mut digits = [0u8; 24];
    let mut d = 0;
    let mut v = size;
    if v == 0 {
        digits[0] = b'0';
        d = 1;
    }
    while v > 0 {
        digits[d] = b'0' + (v % 10) as u8;
        v /= 10;
        d += 1;
    }
    for i in (0..d).rev() {
        buf[n] = digits[i];
        n += 1;
    }
    buf[n] = b'\n';
    n += 1;
    #[cfg(not(miri))]
    unsafe {
        write(2, buf.as_ptr(), n);
        _exit(86);
    }
    #[cfg(miri)]
    {
        let _ = n;
        std::process::exit(86);
    }
}

// ---------------------------------------------------------------------------------------------
// Guard mode (native lanes only: env MV_GUARD=1, decided at the first allocation and constant for
// the life of the process). Every block gets a 16-byte canary tail; fresh memory is filled with a
// poison byte instead of whatever the allocator had there; freed memory is overwritten.
//  * a write past the end of a block (up to 16 bytes) damages the canary: detected when the block
//    is freed or resized -> the worker exits with code 87 (the supervisor attributes it to the case)
//  * a result that depends on uninitialised memory changes when the poison byte changes
//    (`Case::lib_stable` runs the call under two poison values and compares)
// The sanitizer lanes (asan, memcheck) and Miri run without it: their own red zones and
// definedness tracking are byte-precise, and a canary tail / poison fill would hide things from them.
const TAIL: usize = 16;
const CANARY: u8 = 0xFD;
static GUARD_STATE: AtomicUsize = AtomicUsize::new(0); // 0 unknown, 1 on, 2 off
static POISON: AtomicUsize = AtomicUsize::new(0xA5);

#[cfg(not(miri))]
extern "C" {
    fn getenv(name: *const u8) -> *const u8;
}

#[inline]
fn guard_on() -> bool {
    #[cfg(miri)]
    {
        false
    }
    #[cfg(not(miri))]
    {
        match GUARD_STATE.load(Ordering::Relaxed) {
            1 => true,
            2 => false,
            _ => {
                let on = unsafe { !getenv(b"MV_GUARD\0".as_ptr()).is_null() };
                GUARD_STATE.store(if on { 1 } else { 2 }, Ordering::Relaxed);
                on
            }
        }
    }
}

/// Is guard mode active in this process?
pub fn guard_active() -> bool {
    guard_on()
}

/// Byte used to fill fresh allocations in guard mode (returns the previous value).
pub fn set_poison(b: u8) -> u8 {
    POISON.swap(b as usize, Ordering::Relaxed) as u8
}

#[cold]
fn canary_hit(size: usize) -> ! {
    let mut buf = [0u8; 64];
    let prefix = b"MV-HEAP-CANARY ";
    buf[..prefix.len()].copy_from_slice(prefix);
    let mut n = prefix.len();
    let mut digits = [0u8; 24];
    let mut d = 0;
    let mut v = size;
    if v == 0 {
        digits[0] = b'0';
        d = 1;
    }
    while v > 0 {
        digits[d] = b'0' + (v % 10) as u8;
        v /= 10;
        d += 1;
    }
    for i in (0..d).rev() {
        buf[n] = digits[i];
        n += 1;
    }
    buf[n] = b'\n';
    n += 1;
    #[cfg(not(miri))]
    unsafe {
        write(2, buf.as_ptr(), n);
        _exit(87);
    }
    #[cfg(miri)]
    {
        let _ = n;
        std::process::exit(87);
    }
}

/// Fill fresh memory with the poison byte; blocks above 1 MiB only at both ends (a library that
/// reserves gigabytes on the strength of a header field must not make the monitor commit them).
#[inline]
unsafe fn poison_fill(p: *mut u8, size: usize, byte: u8) {
    const BIG: usize = 1 << 20;
    const EDGE: usize = 64 << 10;
    if size <= BIG {
        std::ptr::write_bytes(p, byte, size);
    } else {
        std::ptr::write_bytes(p, byte, EDGE);
        std::ptr::write_bytes(p.add(size - EDGE), byte, EDGE);
    }
}

#[inline]
unsafe fn with_tail(l: Layout) -> Layout {
    Layout::from_size_align_unchecked(l.size() + TAIL, l.align())
}

#[inline]
unsafe fn check_canary(p: *mut u8, size: usize) {
    for i in 0..TAIL {
        if *p.add(size + i) != CANARY {
            canary_hit(size);
        }
    }
}

// ---- sampled page-fenced blocks (guard mode only), in the manner of GWP-ASan -------------------
// One allocation in SAMPLE_EVERY (of at most SLOT_BYTES bytes) is served from a pool of slots, each
// followed by a PROT_NONE page, and placed so that it ends at the page boundary (up to alignment).
// A read or write behind such a block - also of a buffer the LIBRARY allocated, which the tight
// input buffers cannot cover - faults at once; the supervisor attributes the SIGSEGV to the case.
const SLOT_BYTES: usize = 16 << 10;
const NSLOTS: usize = 256;
const SAMPLE_EVERY: usize = 61;
static POOL_BASE: AtomicUsize = AtomicUsize::new(0); // 0 = not mapped yet, usize::MAX = unavailable
static POOL_NEXT: AtomicUsize = AtomicUsize::new(0);
static ALLOC_COUNT: AtomicUsize = AtomicUsize::new(0);
static SAMPLED: AtomicUsize = AtomicUsize::new(0);
#[allow(clippy::declare_interior_mutable_const)]
const FREE: AtomicBool = AtomicBool::new(false);
static SLOT_BUSY: [AtomicBool; NSLOTS] = [FREE; NSLOTS];

/// number of allocations served from the fenced pool so far (evidence)
pub fn sampled_fenced_allocations() -> usize {
    SAMPLED.load(Ordering::Relaxed)
}

#[cfg(not(miri))]
unsafe fn pool_base() -> usize {
    let b = POOL_BASE.load(Ordering::Acquire);
    if b != 0 {
        return b;
    }
    let total = NSLOTS * (SLOT_BYTES + PAGE);
    let p = mmap(std::ptr::null_mut(), total, 3, 0x22, -1, 0);
    let mut base = if p.is_null() || p as isize == -1 { usize::MAX } else { p as usize };
    if base != usize::MAX {
        for i in 0..NSLOTS {
            if mprotect((base + i * (SLOT_BYTES + PAGE) + SLOT_BYTES) as *mut u8, PAGE, 0) != 0 {
                base = usize::MAX;
                break;
            }
        }
    }
    // another thread may have won the race; the loser's mapping is simply left unused
    match POOL_BASE.compare_exchange(0, base, Ordering::AcqRel, Ordering::Acquire) {
        Ok(_) => base,
        Err(other) => other,
    }
}

#[cfg(not(miri))]
#[inline]
unsafe fn pool_slot_of(p: *mut u8) -> Option<usize> {
    let b = POOL_BASE.load(Ordering::Relaxed);
    if b == 0 || b == usize::MAX {
        return None;
    }
    let a = p as usize;
    if a >= b && a < b + NSLOTS * (SLOT_BYTES + PAGE) {
        Some((a - b) / (SLOT_BYTES + PAGE))
    } else {
        None
    }
}
#[cfg(miri)]
#[inline]
unsafe fn pool_slot_of(_p: *mut u8) -> Option<usize> {
    None
}

/// try to serve this request from the fenced pool
#[inline]
unsafe fn sampled_alloc(l: Layout, zeroed: bool) -> *mut u8 {
    #[cfg(miri)]
    {
        let _ = (l, zeroed);
        std::ptr::null_mut()
    }
    #[cfg(not(miri))]
    {
        if l.size() == 0 || l.size() > SLOT_BYTES || l.align() > 64 {
            return std::ptr::null_mut();
        }
        if ALLOC_COUNT.fetch_add(1, Ordering::Relaxed) % SAMPLE_EVERY != 0 {
            return std::ptr::null_mut();
        }
        let base = pool_base();
        if base == usize::MAX {
            return std::ptr::null_mut();
        }
        let start = POOL_NEXT.fetch_add(1, Ordering::Relaxed);
        for k in 0..8 {
            let i = (start + k) % NSLOTS;
            if SLOT_BUSY[i].compare_exchange(false, true, Ordering::AcqRel, Ordering::Relaxed).is_ok() {
                let end = base + i * (SLOT_BYTES + PAGE) + SLOT_BYTES;
                let p = ((end - l.size()) & !(l.align() - 1)) as *mut u8;
                if zeroed {
                    std::ptr::write_bytes(p, 0, l.size());
                } else {
                    std::ptr::write_bytes(p, POISON.load(Ordering::Relaxed) as u8, l.size());
                }
                SAMPLED.fetch_add(1, Ordering::Relaxed);
                return p;
            }
        }
        std::ptr::null_mut()
    }
}

unsafe impl GlobalAlloc for MonAlloc {
    unsafe fn alloc(&self, l: Layout) -> *mut u8 {
        note(l.size());
        if guard_on() {
            let s = sampled_alloc(l, false);
            if !s.is_null() {
                return s;
            }
            let p = System.alloc(with_tail(l));
            if !p.is_null() {
                poison_fill(p, l.size(), POISON.load(Ordering::Relaxed) as u8);
                std::ptr::write_bytes(p.add(l.size()), CANARY, TAIL);
            }
            return p;
        }
        System.alloc(l)
    }
    unsafe fn dealloc(&self, p: *mut u8, l: Layout) {
        if guard_on() {
            if let Some(i) = pool_slot_of(p) {
                std::ptr::write_bytes(p, 0x5A, l.size());
                SLOT_BUSY[i].store(false, Ordering::Release);
                return;
            }
            check_canary(p, l.size());
            poison_fill(p, l.size(), 0x5A);
            return System.dealloc(p, with_tail(l));
        }
        System.dealloc(p, l)
    }
    unsafe fn alloc_zeroed(&self, l: Layout) -> *mut u8 {
        note(l.size());
        if guard_on() {
            let s = sampled_alloc(l, true);
            if !s.is_null() {
                return s;
            }
            let p = System.alloc_zeroed(with_tail(l));
            if !p.is_null() {
                std::ptr::write_bytes(p.add(l.size()), CANARY, TAIL);
            }
            return p;
        }
        System.alloc_zeroed(l)
    }
    unsafe fn realloc(&self, p: *mut u8, l: Layout, new_size: usize) -> *mut u8 {
        note(new_size);
        if guard_on() {
            if pool_slot_of(p).is_some() {
                // move out of the pool: a fresh block (possibly sampled again), copy, release the slot
                let nl = Layout::from_size_align_unchecked(new_size, l.align());
                let np = self.alloc(nl);
                if !np.is_null() {
                    std::ptr::copy_nonoverlapping(p, np, l.size().min(new_size));
                    self.dealloc(p, l);
                }
                return np;
            }
            check_canary(p, l.size());
            let np = System.realloc(p, with_tail(l), new_size + TAIL);
            if !np.is_null() {
                if new_size > l.size() {
                    poison_fill(np.add(l.size()), new_size - l.size(), POISON.load(Ordering::Relaxed) as u8);
                }
                std::ptr::write_bytes(np.add(new_size), CANARY, TAIL);
            }
            return np;
        }
        System.realloc(p, l, new_size)
    }
}

/// Start watching allocation requests; returns nothing. `hard_cap`: a single request above it
/// terminates the worker with exit code 86 *before* the memory is committed.
pub fn alloc_watch_begin(hard_cap: usize) {
    MAX_REQ.store(0, Ordering::Relaxed);
    HARD_CAP.store(hard_cap, Ordering::Relaxed);
    TRACK.store(true, Ordering::Relaxed);
}
/// Stop watching; returns the largest single request seen since `alloc_watch_begin`.
pub fn alloc_watch_end() -> usize {
    TRACK.store(false, Ordering::Relaxed);
    HARD_CAP.store(usize::MAX, Ordering::Relaxed);
    MAX_REQ.load(Ordering::Relaxed)
}

#[derive(Clone, Debug)]
pub struct PanicInfo {
    pub file: String,
    pub line: u32,
    pub msg: String,
}

impl PanicInfo {
    pub fn loc(&self) -> String {
        // normalise registry paths so signatures are stable
        let f = &self.file;
        let short = if let Some(p) = f.find("/registry/src/") {
            let rest = &f[p + "/registry/src/".len()..];
            match rest.find('/') {
                Some(q) => rest[q + 1..].to_string(),
                None => rest.to_string(),
            }
        } else if let Some(p) = f.find("/library/") {
            format!("std{}", &f[p + "/library".len()..])
        } else {
            f.clone()
        };
        format!("{}:{}", short, self.line)
    }
    /// true when the panic site is in the harness itself (a harness bug, never a verdict)
    pub fn in_harness(&self) -> bool {
        let f = &self.file;
        f.starts_with("src/") || f.contains("/verif/harness/")
    }
}

thread_local! {
    static LAST_PANIC: RefCell<Option<PanicInfo>> = RefCell::new(None);
}
static VERBOSE_PANICS: AtomicBool = AtomicBool::new(false);

pub fn install_panic_hook(verbose: bool) {
    VERBOSE_PANICS.store(verbose, Ordering::Relaxed);
    std::panic::set_hook(Box::new(|info| {
        let (file, line) = match info.location() {
            Some(l) => (l.file().to_string(), l.line()),
            None => ("<unknown>".to_string(), 0),
        };
        let msg = if let Some(s) = info.payload().downcast_ref::<&str>() {
            s.to_string()
        } else if let Some(s) = info.payload().downcast_ref::<String>() {
            s.clone()
        } else {
            "<non-string panic payload>".to_string()
        };
        if VERBOSE_PANICS.load(Ordering::Relaxed) {
            eprintln!("[panic] {}:{}: {}", file, line, msg);
        }
        LAST_PANIC.with(|p| *p.borrow_mut() = Some(PanicInfo { file, line, msg }));
    }));
}

pub fn take_panic() -> Option<PanicInfo> {
    LAST_PANIC.with(|p| p.borrow_mut().take())
}

/// Run `f`, catching an unwind. Err carries where the panic was raised.
pub fn guarded<T>(f: impl FnOnce() -> T) -> Result<T, PanicInfo> {
    let _ = take_panic();
    match std::panic::catch_unwind(std::panic::AssertUnwindSafe(f)) {
        Ok(v) => Ok(v),
        Err(_) => Err(take_panic().unwrap_or(PanicInfo {
            file: "<unknown>".into(),
            line: 0,
            msg: "panic without hook info".into(),
        })),
    }
}

#[cfg(not(miri))]
#[repr(C)]
struct Timespec {
    tv_sec: i64,
    tv_nsec: i64,
}
#[cfg(not(miri))]
extern "C" {
    fn clock_gettime(clk: i32, ts: *mut Timespec) -> i32;
}

/// CPU seconds consumed by this process so far (M-cpu). Under Miri: wall clock.
pub fn cpu_now() -> f64 {
    #[cfg(not(miri))]
    {
        let mut ts = Timespec { tv_sec: 0, tv_nsec: 0 };
        unsafe {
            clock_gettime(2, &mut ts);
        }
        ts.tv_sec as f64 + ts.tv_nsec as f64 * 1e-9
    }
    #[cfg(miri)]
    {
        use std::sync::OnceLock;
        static START: OnceLock<std::time::Instant> = OnceLock::new();
        START.get_or_init(std::time::Instant::now).elapsed().as_secs_f64()
    }
}


/// A private copy of an input placed so that nothing readable follows its last byte.
///
/// * Heap form (all lanes): a heap block of exactly the needed size, the copy starting `off` bytes
///   into it. Under ASan / valgrind / Miri the very next byte is a red zone, so an over-read of even
///   one byte is reported; the start address is misaligned by `off`, so word loads through pointer
///   casts trip the alignment checks of the debug-assertion build and of Miri.
/// * Fenced form (guard mode, i.e. the native lanes; three inputs out of four, up to 1 MiB): the
///   copy ends exactly at a page boundary and the next page is `PROT_NONE` (one of four per-thread
///   regions, mapped once). An over-read of one byte is a SIGSEGV, which the supervisor attributes
///   to the running case. Aligned word loads of correct code never cross the boundary.
pub struct Tight {
    buf: Box<[u8]>,
    off: usize,
    fenced: Option<(usize, *const u8, usize)>, // region index, start, len
}

const REGION_BYTES: usize = 1 << 20;
const PAGE: usize = 4096;
const NREGIONS: usize = 4;

#[cfg(not(miri))]
extern "C" {
    fn mmap(addr: *mut u8, len: usize, prot: i32, flags: i32, fd: i32, off: i64) -> *mut u8;
    fn mprotect(addr: *mut u8, len: usize, prot: i32) -> i32;
}

thread_local! {
    // (base of the usable megabyte, busy flag) per region; base == 0 means "not mapped / mapping failed"
    static REGIONS: RefCell<[(usize, bool); NREGIONS]> = RefCell::new([(0, false); NREGIONS]);
}

#[cfg(not(miri))]
fn region_acquire() -> Option<(usize, usize)> {
    REGIONS.with(|r| {
        let mut r = r.borrow_mut();
        for i in 0..NREGIONS {
            if r[i].1 {
                continue;
            }
            if r[i].0 == 0 {
                // PROT_READ|PROT_WRITE = 3, MAP_PRIVATE|MAP_ANONYMOUS = 0x22 (Linux)
                let p = unsafe { mmap(std::ptr::null_mut(), REGION_BYTES + PAGE, 3, 0x22, -1, 0) };
                if p.is_null() || p as isize == -1 {
                    r[i].0 = usize::MAX;
                } else if unsafe { mprotect(p.add(REGION_BYTES), PAGE, 0) } != 0 {
                    r[i].0 = usize::MAX;
                } else {
                    r[i].0 = p as usize;
                }
            }
            if r[i].0 != usize::MAX {
                r[i].1 = true;
                return Some((i, r[i].0));
            }
        }
        None
    })
}

impl Tight {
    pub fn new(bytes: &[u8], salt: u64) -> Tight {
        let pick = salt ^ (salt >> 17) ^ bytes.len() as u64;
        #[cfg(not(miri))]
        {
            if guard_on() && pick % 4 != 0 && bytes.len() <= REGION_BYTES {
                if let Some((idx, base)) = region_acquire() {
                    let start = (base + REGION_BYTES - bytes.len()) as *mut u8;
                    unsafe {
                        std::ptr::copy_nonoverlapping(bytes.as_ptr(), start, bytes.len());
                    }
                    return Tight { buf: Vec::new().into_boxed_slice(), off: 0, fenced: Some((idx, start as *const u8, bytes.len())) };
                }
            }
        }
        const OFFS: [usize; 8] = [0, 1, 2, 3, 0, 5, 4, 7];
        let off = OFFS[((pick >> 2) % 8) as usize];
        let mut v = Vec::with_capacity(off + bytes.len());
        v.resize(off, 0xC5);
        v.extend_from_slice(bytes);
        Tight { buf: v.into_boxed_slice(), off, fenced: None }
    }
    pub fn is_fenced(&self) -> bool {
        self.fenced.is_some()
    }
}

impl Drop for Tight {
    fn drop(&mut self) {
        if let Some((idx, _, _)) = self.fenced {
            REGIONS.with(|r| r.borrow_mut()[idx].1 = false);
        }
    }
}

impl std::ops::Deref for Tight {
    type Target = [u8];
    fn deref(&self) -> &[u8] {
        match self.fenced {
            Some((_, p, n)) => unsafe { std::slice::from_raw_parts(p, n) },
            None => &self.buf[self.off..],
        }
    }
}

/// `Tight::new` with the salt taken from the content
pub fn tight(bytes: &[u8]) -> Tight {
    let mut h: u64 = 0xcbf29ce484222325;
    for b in bytes.iter().take(64) {
        h = (h ^ *b as u64).wrapping_mul(0x100000001b3);
    }
    Tight::new(bytes, h)
}
