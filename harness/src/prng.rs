//! Small deterministic PRNG (splitmix64 seeding + xoshiro256**). No external crates.

#[derive(Clone)]
pub struct Rng {
    s: [u64; 4],
}

pub fn splitmix(x: &mut u64) -> u64 {
    *x = x.wrapping_add(0x9E37_79B9_7F4A_7C15);
    let mut z = *x;
    z = (z ^ (z >> 30)).wrapping_mul(0xBF58_476D_1CE4_E5B9);
    z = (z ^ (z >> 27)).wrapping_mul(0x94D0_49BB_1331_11EB);
    z ^ (z >> 31)
}

/// 64-bit FNV-1a style mixer used for fingerprints (not for security).
pub fn fnv(bytes: &[u8]) -> u64 {
    let mut h: u64 = 0xcbf2_9ce4_8422_2325;
    for b in bytes {
        h ^= *b as u64;
        h = h.wrapping_mul(0x0000_0100_0000_01B3);
    }
    // final avalanche
    let mut x = h;
    splitmix(&mut x)
}

pub fn fnv_add(h: u64, bytes: &[u8]) -> u64 {
    let mut h = h ^ 0x51_7c_c1_b7_27_22_0a_95;
    for b in bytes {
        h ^= *b as u64;
        h = h.wrapping_mul(0x0000_0100_0000_01B3);
    }
    h
}

impl Rng {
    pub fn new(seed: u64) -> Rng {
        let mut x = seed;
        let s = [
            splitmix(&mut x),
            splitmix(&mut x),
            splitmix(&mut x),
            splitmix(&mut x),
        ];
        Rng { s }
    }
    pub fn from_parts(a: u64, b: u64) -> Rng {
        let mut x = a ^ 0xA5A5_5A5A_DEAD_BEEF;
        let m = splitmix(&mut x);
        Rng::new(m ^ b.wrapping_mul(0x9E37_79B9_7F4A_7C15).rotate_left(17))
    }
    pub fn u64(&mut self) -> u64 {
        let r = self.s[1].wrapping_mul(5).rotate_left(7).wrapping_mul(9);
        let t = self.s[1] << 17;
        self.s[2] ^= self.s[0];
        self.s[3] ^= self.s[1];
        self.s[1] ^= self.s[2];
        self.s[0] ^= self.s[3];
        self.s[2] ^= t;
        self.s[3] = self.s[3].rotate_left(45);
        r
    }
    pub fn u32(&mut self) -> u32 {
        (self.u64() >> 32) as u32
    }
    pub fn u8(&mut self) -> u8 {
        (self.u64() >> 56) as u8
    }
    /// uniform in 0..n (n > 0)
    pub fn below(&mut self, n: usize) -> usize {
        if n <= 1 {
            return 0;
        }
        (self.u64() % (n as u64)) as usize
    }
    /// uniform in lo..=hi
    pub fn range(&mut self, lo: usize, hi: usize) -> usize {
        if hi <= lo {
            return lo;
        }
        lo + self.below(hi - lo + 1)
    }
    pub fn chance(&mut self, num: usize, den: usize) -> bool {
        self.below(den) < num
    }
    pub fn bool(&mut self) -> bool {
        self.u64() & 1 == 1
    }
    pub fn pick<'a, T>(&mut self, xs: &'a [T]) -> &'a T {
        &xs[self.below(xs.len())]
    }
    pub fn bytes(&mut self, n: usize) -> Vec<u8> {
        let mut v = Vec::with_capacity(n);
        while v.len() < n {
            let x = self.u64().to_le_bytes();
            for b in x.iter() {
                if v.len() < n {
                    v.push(*b);
                }
            }
        }
        v
    }
    pub fn shuffle<T>(&mut self, xs: &mut [T]) {
        let n = xs.len();
        for i in (1..n).rev() {
            let j = self.below(i + 1);
            xs.swap(i, j);
        }
    }
    /// small numbers are much more likely than large ones
    pub fn skewed(&mut self, max: usize) -> usize {
        if max == 0 {
            return 0;
        }
        let bits = 64 - (max as u64).leading_zeros() as usize;
        let b = self.range(0, bits);
        let m = if b >= 63 { usize::MAX } else { (1usize << b) - 1 };
        let v = (self.u64() as usize) & m;
        v.min(max)
    }
}
