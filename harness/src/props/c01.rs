//! C01 — bin archive content survives serialize -> parse, for any conforming layout.
use crate::ctx::{Case, Ctx};
use crate::json::{hex_short, J};
use crate::prng::Rng;
use crate::refs::archive::{self, endian, GenOpts, RefArchive};
use crate::refs::image;
use crate::refs::strings::{sjis_decode, sjis_ok};
use mila::BinArchive;

pub fn situations(m: &RefArchive) -> Vec<&'static str> {
    let mut v = Vec::new();
    let nkinds = (!m.text.is_empty()) as u32 + (!m.ptrs.is_empty()) as u32 + (!m.cstr.is_empty()) as u32;
    if m.size() == 0 && nkinds == 0 && m.labels.is_empty() {
        v.push("empty_archive");
    }
    if nkinds == 0 && !m.labels.is_empty() {
        v.push("only_labels");
    }
    if m.labels.contains_key(&m.size()) {
        v.push("label_at_size");
    }
    if m.labels.keys().any(|k| k % 4 != 0) {
        v.push("label_unaligned");
    }
    if m.labels.values().any(|b| b.len() >= 2) {
        v.push("several_labels_one_address");
    }
    let mut counts = std::collections::HashMap::new();
    for s in m.text.values() {
        *counts.entry(s).or_insert(0) += 1;
    }
    if counts.values().any(|c| *c >= 3) {
        v.push("string_shared_by_3_cells");
    }
    if m.text.values().any(|s| m.labels.values().any(|b| b.contains(s))) {
        v.push("string_equals_label_name");
    }
    if m.text.values().any(|s| s.is_empty()) {
        v.push("empty_string");
    }
    if !m.cstr.is_empty() && m.text.is_empty() && m.ptrs.is_empty() {
        v.push("cstring_only");
    }
    if !m.cstr.is_empty() && !m.text.is_empty() {
        v.push("cstrings_mixed_with_strings");
    }
    if !m.cstr.is_empty() && m.ptrs.values().any(|t| *t == m.size()) {
        v.push("cstring_and_pointer_to_size");
    }
    if m.size() % 4 != 0 && (!m.text.is_empty() || !m.ptrs.is_empty()) && !m.labels.is_empty() {
        v.push("unaligned_len_with_both_tables");
    }
    if m.be && !m.text.is_empty() && !m.ptrs.is_empty() && !m.cstr.is_empty() && !m.labels.is_empty() {
        v.push("be_all_kinds");
    }
    if m.ptrs.values().any(|t| t % 4 != 0) {
        v.push("pointer_target_unaligned");
    }
    v
}

pub const REQUIRED: &[&str] = &[
    "empty_archive",
    "only_labels",
    "label_at_size",
    "string_shared_by_3_cells",
    "string_equals_label_name",
    "empty_string",
    "cstring_only",
    "cstrings_mixed_with_strings",
    "cstring_and_pointer_to_size",
    "unaligned_len_with_both_tables",
    "be_all_kinds",
    "variant_dup_strings",
    "variant_strings_before_internal",
    "variant_ptr_permuted",
    "variant_labels_permuted",
    "variant_filler",
    "poisoned_by_failing_calls_first",
];

fn s(x: &str) -> String {
    x.to_string()
}

pub fn directed() -> Vec<(&'static str, RefArchive)> {
    let mut out = Vec::new();
    for be in [false, true] {
        out.push(("empty", RefArchive::new(be)));
        let mut m = RefArchive::new(be);
        m.data = vec![1, 2, 3, 4, 5, 6, 7, 8];
        m.labels.insert(0, vec![s("A")]);
        m.labels.insert(6, vec![s("Odd")]);
        m.labels.insert(8, vec![s("End"), s("A")]);
        out.push(("only_labels", m));
        let mut m = RefArchive::new(be);
        m.labels.insert(0, vec![s("L0")]);
        out.push(("label_on_empty_data", m));
        let mut m = RefArchive::new(be);
        m.data = vec![0xAA; 20];
        m.text.insert(0, s("shared"));
        m.text.insert(8, s("shared"));
        m.text.insert(16, s("shared"));
        m.text.insert(4, s(""));
        m.labels.insert(4, vec![s("shared"), s("x")]);
        out.push(("shared_strings", m));
        let mut m = RefArchive::new(be);
        m.data = vec![0x11; 8];
        m.cstr.insert(4, s("cstr"));
        out.push(("cstring_only", m));
        // the D1 shape: string at cell 0 and c-string at cell 4
        let mut m = RefArchive::new(be);
        m.data = vec![0x22; 8];
        m.text.insert(0, s("text"));
        m.cstr.insert(4, s("cstr"));
        out.push(("string_then_cstring", m));
        let mut m = RefArchive::new(be);
        m.data = vec![0x33; 16];
        m.cstr.insert(0, s("a"));
        m.cstr.insert(8, s("日本語"));
        m.cstr.insert(12, s("a"));
        m.ptrs.insert(4, 16);
        m.labels.insert(16, vec![s("End")]);
        out.push(("cstring_and_pointer_to_size", m));
        let mut m = RefArchive::new(be);
        m.data = (0..23u8).collect();
        m.text.insert(0, s("ｱｲｳ"));
        m.ptrs.insert(4, 21);
        m.ptrs.insert(12, 0);
        m.text.insert(16, s("漢字"));
        m.labels.insert(23, vec![s("Tail")]);
        m.labels.insert(1, vec![s("One")]);
        out.push(("unaligned_len", m));
        let mut m = RefArchive::new(be);
        m.data = vec![0x44; 24];
        m.text.insert(0, s("S1"));
        m.text.insert(4, s("S2"));
        m.ptrs.insert(8, 24);
        m.ptrs.insert(12, 2);
        m.cstr.insert(16, s("C1"));
        m.cstr.insert(20, s("S1"));
        m.labels.insert(0, vec![s("Zed"), s("Alpha")]);
        m.labels.insert(12, vec![s("Alpha")]);
        m.labels.insert(24, vec![s("S2")]);
        out.push(("all_kinds", m));
    }
    out
}

/// Compare expected content with an observed flat archive (c-strings appear as internal pointers
/// into an appended pool). Returns a description of the first mismatch.
pub fn check_flat(exp: &RefArchive, got: &RefArchive, cstr_reader: &dyn Fn(usize) -> Result<Option<String>, String>) -> Option<String> {
    let size = exp.size();
    if exp.cstr.is_empty() {
        if got.size() != size {
            return Some(format!("size: expected {} got {}", size, got.size()));
        }
    } else if got.size() < size {
        return Some(format!("size: expected at least {} got {}", size, got.size()));
    }
    // raw bytes outside annotated cells
    let annotated = |i: usize| {
        let cell = i & !3;
        exp.occupied(cell) && cell + 4 <= size
    };
    for i in 0..size {
        if !annotated(i) && exp.data[i] != got.data[i] {
            return Some(format!(
                "raw byte at {:#x}: expected {:02x} got {:02x}",
                i, exp.data[i], got.data[i]
            ));
        }
    }
    // strings
    let got_text: Vec<_> = got.text.iter().collect();
    let exp_text: Vec<_> = exp.text.iter().collect();
    if got_text != exp_text {
        return Some(format!("strings: expected {:?} got {:?}", exp.text, got.text));
    }
    // pointers
    for (cell, tgt) in &exp.ptrs {
        if got.ptrs.get(cell) != Some(tgt) {
            return Some(format!(
                "pointer at {:#x}: expected {:#x} got {:?}",
                cell,
                tgt,
                got.ptrs.get(cell)
            ));
        }
    }
    for (cell, tgt) in &got.ptrs {
        if !exp.ptrs.contains_key(cell) && !exp.cstr.contains_key(cell) {
            return Some(format!("invented pointer at {:#x} -> {:#x}", cell, tgt));
        }
    }
    for (cell, text) in &exp.cstr {
        match got.ptrs.get(cell) {
            None => return Some(format!("c-string cell {:#x} has no pointer after re-parse", cell)),
            Some(t) => {
                if *t < size || *t >= got.size() {
                    return Some(format!(
                        "c-string cell {:#x} points to {:#x}, outside the pool [{:#x},{:#x})",
                        cell,
                        t,
                        size,
                        got.size()
                    ));
                }
            }
        }
        match cstr_reader(*cell) {
            Err(e) => return Some(format!("read_c_string({:#x}) failed: {}", cell, e)),
            Ok(None) => return Some(format!("read_c_string({:#x}) returned None", cell)),
            Ok(Some(t)) => {
                if &t != text {
                    return Some(format!(
                        "c-string at {:#x}: expected {:?} got {:?}",
                        cell, text, t
                    ));
                }
            }
        }
    }
    // labels (per-address order is content)
    let e = exp.normalized();
    let g = got.normalized();
    if e.labels != g.labels {
        return Some(format!("labels: expected {:?} got {:?}", e.labels, g.labels));
    }
    None
}

fn pool_reader<'a>(arch: &'a RefArchive) -> impl Fn(usize) -> Result<Option<String>, String> + 'a {
    move |cell: usize| match arch.ptrs.get(&cell) {
        None => Ok(None),
        Some(t) => {
            if *t >= arch.size() {
                return Err("target outside data".into());
            }
            let rest = &arch.data[*t..];
            let n = rest.iter().position(|b| *b == 0).ok_or("unterminated")?;
            let (s, err) = sjis_decode(&rest[..n]);
            if err {
                return Err("invalid shift-jis".into());
            }
            Ok(Some(s))
        }
    }
}

pub fn check_content(c: &mut Case, name: &str, m: &RefArchive, nvariants: usize) {
    for st in situations(m) {
        c.sit(st);
    }
    let kinds = (!m.text.is_empty()) as u32 + (!m.ptrs.is_empty()) as u32 + (!m.cstr.is_empty()) as u32;
    let nontrivial = kinds >= 2 && !m.labels.is_empty();
    let fp0 = m.fingerprint();
    if nontrivial {
        c.nontrivial(fp0);
    }
    let desc = || m.describe();
    // (a)+(b): serialize through the library
    let mut rng = c.rng.clone();
    let real = match archive::build_real(m, &mut rng) {
        Ok(a) => a,
        Err(e) => {
            c.fail("api", "build", format!("{}: {} content={}", name, e, desc()));
            return;
        }
    };
    let img = match c.lib_stable("BinArchive::serialize", || real.serialize().map_err(|e| e.to_string())) {
        None => return,
        Some(Err(e)) => {
            c.fail("serialize_err", "serialize_err", format!("{}: serialize returned Err({}) for in-domain content {}", name, e, desc()));
            return;
        }
        Some(Ok(b)) => b,
    };
    c.outcome("serialize_ok");
    match image::parse_strict(&img, m.be) {
        Err(e) => {
            c.fail(
                "malformed_image",
                "malformed_image",
                format!("{}: serialized image is not well-formed: {}; content={} image={}", name, e, desc(), hex_short(&img, 256)),
            );
        }
        Ok(p) => {
            if m.size() % 4 == 0 && p.data_size % 4 != 0 {
                c.fail(
                    "unaligned_tables",
                    "unaligned_tables",
                    format!("{}: data is word-aligned ({}) but image data total {} is not, so the tables are misaligned; content={}", name, m.size(), p.data_size, desc()),
                );
            }
            if m.cstr.is_empty() && p.data_size != m.size() {
                c.fail("data_total", "data_total", format!("{}: header data total {} != size {}", name, p.data_size, m.size()));
            }
            if let Some(d) = check_flat(m, &p.arch, &pool_reader(&p.arch)) {
                c.fail(
                    "image_content",
                    "image_content",
                    format!("{}: reference reader recovers different content from the serialized image: {}; content={} image={}", name, d, desc(), hex_short(&img, 256)),
                );
            }
        }
    }
    // re-parse through the library
    let img_t = crate::monitor::tight(&img);
    match c.lib("BinArchive::from_bytes", || BinArchive::from_bytes(&img_t, endian(m.be))) {
        None => {}
        Some(Err(e)) => c.fail(
            "reparse_err",
            "reparse_err",
            format!("{}: from_bytes(serialize(a)) returned Err({}); content={} image={}", name, e, desc(), hex_short(&img, 256)),
        ),
        Some(Ok(re)) => match c.lib("accessors on re-parsed archive", || archive::observe_public(&re, m.be)) {
            None => {}
            Some(Err(e)) => c.fail("accessor", "accessor", format!("{}: {}", name, e)),
            Some(Ok(got)) => {
                let rd = |cell: usize| re.read_c_string(cell).map_err(|e| e.to_string());
                if let Some(d) = check_flat(m, &got, &rd) {
                    c.fail(
                        "roundtrip",
                        "roundtrip",
                        format!("{}: from_bytes(serialize(a)) differs: {}; content={} image={}", name, d, desc(), hex_short(&img, 256)),
                    );
                }
            }
        },
    }
    c.sample(if m.cstr.is_empty() { "roundtrip" } else { "roundtrip_cstr" }, || {
        J::obj(vec![
            ("name", J::s(name)),
            ("content", J::s(desc())),
            ("image_hex", J::s(hex_short(&img, 160))),
            ("observed", J::s("strict reference reader accepted the image; library re-parse equal to content")),
        ])
    });
    // (c): conforming variant layouts fed to the parser
    let flat = image::flatten_cstrings(m, Some(&mut rng));
    for k in 0..nvariants {
        let (v, info) = image::write_variant(&flat, &mut rng);
        c.eval(1);
        // harness self-check: my own strict reader must read my own variant back
        match image::parse_strict(&v, m.be) {
            Ok(p) => {
                if let Some(d) = check_flat(&flat, &p.arch, &pool_reader(&p.arch)) {
                    c.st.harness_errors.push(format!("variant writer/reader disagree: {} on {}", d, flat.describe()));
                    return;
                }
            }
            Err(e) => {
                c.st.harness_errors.push(format!("variant writer produced an image my reader rejects: {} on {}", e, flat.describe()));
                return;
            }
        }
        if info.dup_strings {
            c.sit("variant_dup_strings");
        }
        if info.strings_before_internal {
            c.sit("variant_strings_before_internal");
        }
        if info.ptr_permuted {
            c.sit("variant_ptr_permuted");
        }
        if info.labels_permuted {
            c.sit("variant_labels_permuted");
        }
        if info.filler {
            c.sit("variant_filler");
        }
        if info.suffix_shared {
            c.sit("variant_suffix_shared");
        }
        if nontrivial {
            c.nontrivial(fp0 ^ crate::prng::fnv(&v));
        }
        let v_t = crate::monitor::tight(&v);
        match c.lib("BinArchive::from_bytes(variant)", || BinArchive::from_bytes(&v_t, endian(m.be))) {
            None => {}
            Some(Err(e)) => c.fail(
                "variant_err",
                "variant_err",
                format!("{}: from_bytes rejected a conforming layout ({:?}) with Err({}); content={} image={}", name, info, e, flat.describe(), hex_short(&v, 256)),
            ),
            Some(Ok(re)) => match c.lib("accessors on parsed variant", || archive::observe_public(&re, m.be)) {
                None => {}
                Some(Err(e)) => c.fail("accessor", "accessor", format!("{}: {}", name, e)),
                Some(Ok(got)) => {
                    let rd = |cell: usize| re.read_c_string(cell).map_err(|e| e.to_string());
                    let mut d = check_flat(&flat, &got, &rd);
                    if d.is_none() {
                        // c-string cells must read back through read_c_string
                        for (cell, text) in &m.cstr {
                            match rd(*cell) {
                                Ok(Some(t)) if &t == text => {}
                                other => {
                                    d = Some(format!("read_c_string({:#x}) = {:?}, expected {:?}", cell, other, text));
                                    break;
                                }
                            }
                        }
                    }
                    if let Some(d) = d {
                        c.fail(
                            "variant",
                            "variant",
                            format!("{}: parser recovers different content from conforming layout #{} ({:?}): {}; content={} image={}", name, k, info, d, flat.describe(), hex_short(&v, 256)),
                        );
                    } else if info.ptr_permuted || info.labels_permuted || info.dup_strings {
                        c.sample("variant", || {
                            J::obj(vec![
                                ("name", J::s(name)),
                                ("layout", J::s(format!("{:?}", info))),
                                ("content", J::s(flat.describe())),
                                ("image_hex", J::s(hex_short(&v, 160))),
                                ("observed", J::s("library parse equal to content")),
                            ])
                        });
                    }
                }
            },
        }
    }
}

pub fn run(cx: &mut Ctx) {
    cx.require(REQUIRED);
    cx.rule = "cases = directed contents (both endiannesses) + random contents from the C01 domain; each content is built through the public API in a random call order, serialized, checked by the strict reference reader and re-parsed by the library, then K conforming variant layouts written by the reference writer are fed to the parser. non-trivial = content with >=2 annotation kinds and >=1 label; threshold contents: pointer tables of 127..5000 entries, label tables of 127..70000 entries, text sections beyond 64 KiB with late strings referenced again; long Shift-JIS strings around 64/128/256/4096 encoded bytes; every third build also issues calls that must be rejected; distinct by hash of (content) and of (content, variant image)".into();
    let kq = 4;
    let kt = 16;
    let k = if cx.a.quick() { kq } else { kt };
    for (name, m) in directed() {
        cx.case(name, |c| {
            // directed contents get many variants so every layout situation is reached
            check_content(c, name, &m, if cfg!(miri) { 4 } else { 40 });
        });
    }
    if !cfg!(miri) {
        // a label name's offset inside the text section swept across the absolute positions of the
        // strings in it (two number spaces that overlap when names are long enough)
        for chunk in 0..4usize {
            cx.case("label_name_offsets_sweep", |c| {
                c.sit("label_name_offsets_sweep");
                for l in (chunk * 40 + 1)..=(chunk * 40 + 40) {
                    let mut m = RefArchive::new(l % 2 == 0);
                    m.data = vec![0x33; 16];
                    m.text.insert(0, "walk".to_string());
                    if l % 3 == 0 {
                        m.text.insert(12, "victim".to_string());
                    }
                    m.labels.insert(0, vec!["walk".to_string()]);
                    m.labels.insert(4, vec!["y".repeat(l)]);
                    m.labels.insert(8, vec!["victim".to_string()]);
                    check_content(c, "label_name_offsets_sweep", &m, 1);
                }
            });
        }
        for which in 0..archive::THRESHOLD_VARIANTS {
            cx.case("threshold", |c| {
                let mut rng = c.rng.clone();
                if let Some((name, m)) = archive::threshold_content(&mut rng, which, which % 2 == 0) {
                    c.rng = rng;
                    c.sit("table_size_thresholds");
                    check_content(c, &name, &m, 2);
                }
            });
        }
    }
    let n = cx.a.n(200_000, 3_000_000);
    let big_every = 997;
    for i in 0..n {
        if !cx.next_is_mine() {
            cx.case("random", |_| {});
            continue;
        }
        let quick = cx.a.quick();
        cx.case("random", |c| {
            super::poison::maybe(c, 7);
            let mut rng = c.rng.clone();
            let max_cells = if cfg!(miri) {
                6
            } else if !quick && i % big_every == 0 {
                16384
            } else if quick {
                64
            } else {
                256
            };
            let o = GenOpts {
                max_cells,
                allow_unaligned_len: true,
                cstrings: rng.chance(1, 2),
                // every 5th case: many labels on few addresses (long label tables, crowded buckets)
                max_labels: if max_cells > 1000 { 400 } else if i % 5 == 0 { 160 } else { 24 },
                string_len: 12,
            };
            let m = archive::gen_content(&mut rng, &o);
            debug_assert!(m.text.values().all(|s| sjis_ok(s)));
            c.rng = rng;
            check_content(c, "random", &m, if max_cells > 1000 { 2 } else { k });
        });
    }
}

#[allow(unused)]
fn _unused(_: &mut Rng) {}
