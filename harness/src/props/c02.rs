//! C02 — serialization is canonical, deterministic and byte-stable.
use crate::ctx::{Case, Ctx};
use crate::json::{hex_short, J};
use crate::prng::fnv;
use crate::refs::archive::{self, endian, GenOpts, RefArchive};
use crate::refs::image;
use mila::BinArchive;

fn s(x: &str) -> String {
    x.to_string()
}

pub const REQUIRED: &[&str] = &[
    "be_tied_buckets",
    "shared_string",
    "several_labels_one_address",
    "same_name_on_several_addresses",
    "string_equals_label_name",
    "first_use_after_second_use",
    "be_with_pointers",
    "empty_archive",
    "poisoned_by_failing_calls_first",
];

fn situations(m: &RefArchive) -> Vec<&'static str> {
    let mut v = Vec::new();
    if m.size() == 0 && m.labels.is_empty() {
        v.push("empty_archive");
    }
    let lists: Vec<&Vec<String>> = m.labels.values().collect();
    if m.be {
        let mut tied = false;
        for i in 0..lists.len() {
            for j in i + 1..lists.len() {
                if lists[i] == lists[j] {
                    tied = true;
                }
            }
        }
        if tied {
            v.push("be_tied_buckets");
        }
        if !m.ptrs.is_empty() && !m.text.is_empty() {
            v.push("be_with_pointers");
        }
    }
    let mut counts = std::collections::HashMap::new();
    for t in m.text.values() {
        *counts.entry(t).or_insert(0) += 1;
    }
    if counts.values().any(|c| *c >= 2) {
        v.push("shared_string");
    }
    if lists.iter().any(|b| b.len() >= 2) {
        v.push("several_labels_one_address");
    }
    let mut names = std::collections::HashMap::new();
    for b in &lists {
        let mut seen = std::collections::HashSet::new();
        for n in b.iter() {
            if seen.insert(n) {
                *names.entry(n).or_insert(0) += 1;
            }
        }
    }
    if names.values().any(|c| *c >= 2) {
        v.push("same_name_on_several_addresses");
    }
    if m.text.values().any(|t| lists.iter().any(|b| b.contains(t))) {
        v.push("string_equals_label_name");
    }
    // a string whose first use comes after another string's second use
    let seq: Vec<&String> = m.text.values().collect();
    let mut first: Vec<&String> = Vec::new();
    let mut second_seen = false;
    for t in seq {
        if first.contains(&t) {
            second_seen = true;
        } else {
            if second_seen {
                v.push("first_use_after_second_use");
                break;
            }
            first.push(t);
        }
    }
    v
}

fn directed() -> Vec<(&'static str, RefArchive)> {
    let mut out = Vec::new();
    for be in [false, true] {
        out.push(("empty", RefArchive::new(be)));
        // the D2 shape: one name on four addresses
        let mut m = RefArchive::new(be);
        m.data = vec![0; 16];
        for a in [0usize, 4, 8, 12] {
            m.labels.insert(a, vec![s("X")]);
        }
        out.push(("same_label_on_4_addresses", m));
        let mut m = RefArchive::new(be);
        m.data = (0..40u8).collect();
        m.text.insert(0, s("B"));
        m.text.insert(4, s("A"));
        m.text.insert(8, s("B"));
        m.text.insert(12, s("C"));
        m.text.insert(16, s("A"));
        m.text.insert(36, s("Name"));
        m.ptrs.insert(20, 40);
        m.ptrs.insert(24, 0);
        m.ptrs.insert(32, 7);
        m.labels.insert(0, vec![s("Zed"), s("Name")]);
        m.labels.insert(8, vec![s("Alpha"), s("Alpha")]);
        m.labels.insert(13, vec![s("Zed"), s("Name")]);
        m.labels.insert(40, vec![s("Alpha")]);
        m.labels.insert(20, vec![s("Alpha")]);
        out.push(("ordering_corner_cases", m));
        let mut m = RefArchive::new(be);
        m.data = vec![7; 10];
        m.labels.insert(10, vec![s("b"), s("a")]);
        m.labels.insert(3, vec![s("b")]);
        m.labels.insert(4, vec![s("a"), s("b")]);
        m.labels.insert(0, vec![s("b"), s("a")]);
        m.text.insert(4, s("b"));
        out.push(("name_list_order", m));
    }
    out
}

/// address order of the label table buckets as they appear in an image (first appearance)
fn bucket_order(p: &image::Parsed) -> Vec<usize> {
    let mut v: Vec<usize> = Vec::new();
    for (a, _) in &p.label_table {
        if !v.contains(&(*a as usize)) {
            v.push(*a as usize);
        }
    }
    v
}

pub fn check_content(c: &mut Case, name: &str, m: &RefArchive, builds: usize, det: bool) {
    for st in situations(m) {
        c.sit(st);
    }
    let nontrivial = m.all_labels().len() >= 2 && m.text.len() >= 2;
    if nontrivial {
        c.nontrivial(m.fingerprint());
    }
    let mut rng = c.rng.clone();
    let mut images: Vec<Vec<u8>> = Vec::new();
    for b in 0..builds {
        let real = if b == 0 {
            archive::build_real_plain(m)
        } else {
            archive::build_real(m, &mut rng)
        };
        let real = match real {
            Ok(a) => a,
            Err(e) => {
                c.fail("api", "build", format!("{}: {} content={}", name, e, m.describe()));
                return;
            }
        };
        c.eval(1);
        match c.lib_stable("BinArchive::serialize", || real.serialize().map_err(|e| e.to_string())) {
            None => return,
            Some(Err(e)) => {
                c.fail("serialize_err", "serialize_err", format!("{}: serialize returned Err({}) content={}", name, e, m.describe()));
                return;
            }
            Some(Ok(img)) => {
                // repeated serialisation of the same object
                if b == 0 {
                    if let Some(Ok(again)) = c.lib("BinArchive::serialize (again)", || real.serialize()) {
                        if again != img {
                            c.fail("nondeterministic", "nondeterministic_same_object", format!("{}: two serialize() calls on the same archive differ; content={}", name, m.describe()));
                        }
                    }
                }
                images.push(img)
            }
        }
    }
    let img = images[0].clone();
    let distinct: std::collections::HashSet<u64> = images.iter().map(|i| fnv(i)).collect();
    c.stat_max("max_distinct_images_per_content", distinct.len() as f64);
    if distinct.len() > 1 {
        let other = images.iter().find(|i| **i != img).unwrap();
        c.fail(
            "nondeterministic",
            "nondeterministic_in_process",
            format!(
                "{}: equal content built by {} call orders serialized to {} different images; content={} image_a={} image_b={}",
                name,
                builds,
                distinct.len(),
                m.describe(),
                hex_short(&img, 200),
                hex_short(other, 200)
            ),
        );
    }
    // history on ONE object: serialize, edit, serialize again (anything the object keeps from an
    // earlier serialize call must not show in a later image)
    match c.lib("build with serialize() between the edits", || archive::build_real_staged(m)) {
        None => {}
        Some(Err(e)) => c.fail("api", "build_staged", format!("{}: {} content={}", name, e, m.describe())),
        Some(Ok((real, snaps))) => {
            c.eval(1);
            c.stat_max("max_serialize_calls_between_edits_of_one_object", snaps as f64);
            match c.lib("BinArchive::serialize (object serialized between its edits)", || real.serialize().map_err(|e| e.to_string())) {
                None => {}
                Some(Err(e)) => c.fail("serialize_err", "serialize_err_staged", format!("{}: serialize returned Err({}) content={}", name, e, m.describe())),
                Some(Ok(st)) => {
                    if st != img {
                        let i = st.iter().zip(img.iter()).position(|(a, b)| a != b).unwrap_or(st.len().min(img.len()));
                        c.fail(
                            "nondeterministic",
                            "stale_after_earlier_serialize",
                            format!(
                                "{}: an archive that was serialized {} times between the calls that built it serializes differently from a fresh build of the same content (offset {:#x}); content={} fresh={} staged={}",
                                name,
                                snaps,
                                i,
                                m.describe(),
                                hex_short(&img, 200),
                                hex_short(&st, 200)
                            ),
                        );
                    } else {
                        c.outcome("serialize_edit_serialize_on_one_object_equals_fresh_build");
                    }
                }
            }
        }
    }
    if det {
        c.digest(format!("case{}", c.idx), fnv(&img));
    }
    // canonical image
    let expected = match image::parse_strict(&img, m.be) {
        Ok(p) => {
            let order = bucket_order(&p);
            let mut ok_order = true;
            let mut addrs: Vec<usize> = m.normalized().labels.keys().copied().collect();
            let mut o2 = order.clone();
            o2.sort();
            addrs.sort();
            if o2 != addrs {
                ok_order = false;
            }
            if ok_order && m.be {
                for w in order.windows(2) {
                    let (a, b) = (&m.labels[&w[0]], &m.labels[&w[1]]);
                    if a > b {
                        ok_order = false;
                    }
                }
            }
            if m.be && ok_order {
                image::write_canonical(m, Some(&order))
            } else {
                image::write_canonical(m, None)
            }
        }
        Err(_) => image::write_canonical(m, None),
    };
    if expected != img {
        let i = expected.iter().zip(img.iter()).position(|(a, b)| a != b).unwrap_or(expected.len().min(img.len()));
        c.fail(
            "not_canonical",
            "not_canonical",
            format!(
                "{}: serialize() differs from the canonical image at offset {:#x} (lengths {} vs {}); content={} expected={} got={}",
                name,
                i,
                expected.len(),
                img.len(),
                m.describe(),
                hex_short(&expected, 320),
                hex_short(&img, 320)
            ),
        );
    }
    // byte stability: parse then re-serialize reproduces the canonical file
    let img_t = crate::monitor::tight(&img);
    match c.lib("BinArchive::from_bytes", || BinArchive::from_bytes(&img_t, endian(m.be))) {
        None => {}
        Some(Err(e)) => c.fail("reparse_err", "reparse_err", format!("{}: from_bytes(serialize(a)) returned Err({}) content={}", name, e, m.describe())),
        Some(Ok(re)) => match c.lib("BinArchive::serialize (re-parsed)", || re.serialize()) {
            None => {}
            Some(Err(e)) => c.fail("reserialize_err", "reserialize_err", format!("{}: re-serialize Err({})", name, e)),
            Some(Ok(img2)) => {
                if img2 != img {
                    let i = img2.iter().zip(img.iter()).position(|(a, b)| a != b).unwrap_or(img2.len().min(img.len()));
                    c.fail(
                        "not_byte_stable",
                        "not_byte_stable",
                        format!(
                            "{}: serialize(from_bytes(c)) != c at offset {:#x}; content={} c={} re={}",
                            name,
                            i,
                            m.describe(),
                            hex_short(&img, 320),
                            hex_short(&img2, 320)
                        ),
                    );
                }
            }
        },
    }
    c.sample(if m.be { "canonical_be" } else { "canonical_le" }, || {
        J::obj(vec![
            ("name", J::s(name)),
            ("content", J::s(m.describe())),
            ("builds_compared", J::U(builds as u64)),
            ("image_hex", J::s(hex_short(&img, 200))),
            ("observed", J::s("all builds byte-identical, equal to the reference canonical image, parse->serialize reproduces it")),
        ])
    });
}

pub fn gen(rng: &mut crate::prng::Rng, quick: bool) -> RefArchive {
    let o = GenOpts {
        max_cells: if cfg!(miri) { 6 } else if quick { 48 } else { 200 },
        allow_unaligned_len: true,
        cstrings: false,
        max_labels: if rng.chance(1, 5) { 160 } else { 24 },
        string_len: 8,
    };
    let mut m = archive::gen_content(rng, &o);
    // bias towards ordering corner cases
    if rng.chance(1, 2) && !m.labels.is_empty() {
        // copy one bucket's name list to other addresses (ties in BE, repeated names in LE)
        let lists: Vec<Vec<String>> = m.labels.values().cloned().collect();
        let l = rng.pick(&lists).clone();
        for _ in 0..rng.range(1, 3) {
            let addr = (rng.range(0, m.size()) / 4) * 4;
            m.labels.entry(addr).or_insert_with(|| l.clone());
        }
    }
    if rng.chance(1, 3) && !m.text.is_empty() {
        let t: Vec<String> = m.text.values().cloned().collect();
        let name = rng.pick(&t).clone();
        if !name.is_empty() || rng.bool() {
            let addr = rng.range(0, m.size());
            m.labels.entry(addr).or_default().push(name);
        }
    }
    m
}

pub fn run(cx: &mut Ctx) {
    cx.require(REQUIRED);
    cx.rule = "cases = directed contents + random contents (C01 domain without c-strings, biased to ordering corner cases); each content is built through the public API in P different call orders (fresh hash maps each), every image must be byte-identical, equal to the reference writer's canonical image, and reproduced by parse->serialize; each content is additionally built on ONE object that is serialized between its edits (after each stage and before every label joining an address that already has one) and that object's final image must equal the fresh build's; in mode 'det' the same contents are rebuilt in >=8 fresh processes and image digests compared by the supervisor. non-trivial = content with >=2 labels and >=2 string cells; threshold contents as in C01 (table sizes, text beyond 64 KiB); every serialize is repeated under a second heap poison byte; distinct by content hash".into();
    let det = cx.a.mode == "det";
    let builds = if cfg!(miri) { 3 } else if cx.a.quick() { 4 } else { 12 };
    for (name, m) in directed() {
        cx.case(name, |c| check_content(c, name, &m, 12, det));
    }
    if !cfg!(miri) && !det {
        for which in 0..archive::THRESHOLD_VARIANTS {
            cx.case("threshold", |c| {
                let mut rng = c.rng.clone();
                if let Some((name, m)) = archive::threshold_content(&mut rng, which, false) {
                    c.rng = rng;
                    c.sit("table_size_thresholds");
                    check_content(c, &name, &m, 3, false);
                }
            });
        }
    }
    let n = if det { cx.a.n(600, 6000) } else { cx.a.n(600_000, 4_000_000) };
    let quick = cx.a.quick();
    for _ in 0..n {
        cx.case("random", |c| {
            super::poison::maybe(c, 7);
            let mut rng = c.rng.clone();
            let m = gen(&mut rng, quick);
            c.rng = rng;
            check_content(c, "random", &m, builds, det);
        });
    }
}
