//! C03 — allocate / deallocate / truncate relocate every annotation consistently.
use super::c01::check_flat;
use super::c04::{self, Acc, Op};
use crate::ctx::{Case, Ctx};
use crate::json::J;
use crate::prng::{fnv, Rng};
use crate::refs::archive::{self, RefArchive};
use crate::refs::image;
use crate::refs::strings::{gen_ident, gen_sjis, sjis_decode};
use mila::{BinArchive, BinArchiveWriter};

#[derive(Clone, Debug)]
pub enum SOp {
    Allocate(usize, usize, bool),
    AllocateAtEnd(usize),
    WriterAllocate(usize, usize, bool), // cursor, amount, ge
    WriterAllocateAtEnd(usize, usize),
    Deallocate(usize, usize, bool),
    Truncate(usize),
    WriteCString(usize, String, bool), // cell, text, through the writer
    Cell(Op),                          // plain accessor op, executed by C04's monitor
    /// several steps on ONE long-lived BinArchiveWriter (cursor and any cached state persist)
    WriterSeq(Vec<WStep>),
}

#[derive(Clone, Debug)]
pub enum WStep {
    Seek(usize),
    AllocAtEnd(usize),
    Alloc(usize, bool),
    WriteU32(u32),
    WriteBytes(Vec<u8>),
    WriteString(Option<String>),
    WriteLabel(String),
}

/// Run a sequence of steps on one writer; the model is stepped alongside and every step's
/// result, `size()` and (after a success) `tell()` are compared. Returns false on violation.
pub fn exec_writer_seq(c: &mut Case, real: &mut BinArchive, model: &mut RefArchive, steps: &[WStep]) -> bool {
    let be = model.be;
    c.sit("long_lived_writer_sequence");
    let before = model.clone();
    let mut trace: Vec<(String, Result<(), String>, usize, usize)> = Vec::new();
    let r = c.lib(&format!("WriterSeq{:?}", steps), || {
        let mut w = BinArchiveWriter::new(real, 0);
        for s in steps {
            let res: Result<(), String> = match s {
                WStep::Seek(p) => {
                    w.seek(*p);
                    Ok(())
                }
                WStep::AllocAtEnd(n) => {
                    w.allocate_at_end(*n);
                    Ok(())
                }
                WStep::Alloc(n, ge) => w.allocate(*n, *ge).map_err(|e| e.to_string()),
                WStep::WriteU32(v) => w.write_u32(*v).map_err(|e| e.to_string()),
                WStep::WriteBytes(b) => w.write_bytes(b).map_err(|e| e.to_string()),
                WStep::WriteString(v) => w.write_string(v.as_deref()).map_err(|e| e.to_string()),
                WStep::WriteLabel(l) => w.write_label(l).map_err(|e| e.to_string()),
            };
            trace.push((format!("{:?}", s), res, w.size(), w.tell()));
        }
    });
    if r.is_none() {
        return false;
    }
    // step the model
    let mut pos = 0usize;
    for (i, s) in steps.iter().enumerate() {
        let (desc, res, size_after, tell_after) = &trace[i];
        let exp_ok = match s {
            WStep::Seek(p) => {
                pos = *p;
                true
            }
            WStep::AllocAtEnd(n) => {
                model.allocate_at_end(*n);
                true
            }
            WStep::Alloc(n, ge) => {
                if pos == model.size() {
                    model.allocate_at_end(*n);
                    true
                } else {
                    model.allocate(pos, *n, *ge)
                }
            }
            WStep::WriteU32(v) => {
                if model.range_ok(pos, 4) {
                    let b = if be { v.to_be_bytes() } else { v.to_le_bytes() };
                    model.data[pos..pos + 4].copy_from_slice(&b);
                    pos += 4;
                    true
                } else {
                    false
                }
            }
            WStep::WriteBytes(b) => {
                if b.is_empty() {
                    res.is_ok() // zero-length write: only "no panic, no change" is required
                } else if model.range_ok(pos, b.len()) {
                    model.data[pos..pos + b.len()].copy_from_slice(b);
                    pos += b.len();
                    true
                } else {
                    false
                }
            }
            WStep::WriteString(v) => {
                if model.cell_ok(pos) {
                    match v {
                        Some(s) => {
                            model.text.insert(pos, s.clone());
                        }
                        None => {
                            model.text.remove(&pos);
                        }
                    }
                    pos += 4;
                    true
                } else {
                    false
                }
            }
            WStep::WriteLabel(l) => model.write_label(pos, l),
        };
        let ctx = |m: String| format!("step #{} {} of one long-lived writer {:?} on {}: {}", i, desc, steps, before.describe(), m);
        if exp_ok != res.is_ok() {
            c.fail("writer_sequence", "writer_seq_result", ctx(format!("returned {:?}, the positional rule at the cursor gives {}", res, if exp_ok { "Ok" } else { "Err" })));
            return false;
        }
        if *size_after != model.size() {
            c.fail("writer_sequence", "writer_seq_size", ctx(format!("writer.size() = {}, expected {}", size_after, model.size())));
            return false;
        }
        if res.is_ok() {
            if *tell_after != pos {
                c.fail("writer_sequence", "writer_seq_cursor", ctx(format!("cursor at {}, expected {}", tell_after, pos)));
                return false;
            }
        } else {
            pos = *tell_after; // cursor after a failed access is not asserted
        }
    }
    match archive::observe(real, be) {
        Err(e) => {
            c.fail("state", "state:WriterSeq", format!("inconsistent state after {:?}: {}", steps, e));
            false
        }
        Ok(after) => {
            if let Some(d) = archive::diff(model, &after) {
                c.fail("writer_sequence", "writer_seq_state", format!("after the writer sequence {:?} on {}: {}; got {}", steps, before.describe(), d, after.describe()));
                *model = after;
                false
            } else {
                true
            }
        }
    }
}

pub fn gen_writer_seq(rng: &mut Rng, m: &RefArchive) -> Vec<WStep> {
    let size = m.size();
    let mut v = Vec::new();
    let n = rng.range(2, 7);
    let mut est = size;
    for _ in 0..n {
        let al = |rng: &mut Rng, max: usize| (rng.range(0, max) / 4) * 4;
        v.push(match rng.below(10) {
            0 | 1 => WStep::Seek(match rng.below(4) {
                0 => size, // the size the archive had when the writer was created
                1 => est,
                _ => al(rng, est),
            }),
            2 | 3 => {
                let k = 4 * rng.range(1, 4);
                est += k;
                WStep::AllocAtEnd(k)
            }
            4 | 5 => {
                let k = 4 * rng.range(0, 3);
                est += k;
                WStep::Alloc(k, rng.bool())
            }
            6 => WStep::WriteU32(rng.u32() | 1),
            7 => {
                let l = rng.range(0, 9);
                WStep::WriteBytes((0..l).map(|_| rng.u8() | 1).collect())
            }
            8 => WStep::WriteString(if rng.chance(1, 4) { None } else { Some(gen_ident(rng, 3)) }),
            _ => WStep::WriteLabel(gen_ident(rng, 3)),
        });
    }
    v
}

fn sit_for(c: &mut Case, m: &RefArchive, op: &SOp) {
    match op {
        SOp::Allocate(a, n, ge) | SOp::WriterAllocate(a, n, ge) => {
            if *a <= m.size() && a % 4 == 0 && n % 4 == 0 && *n > 0 {
                if m.labels.contains_key(a) {
                    c.sit(if *ge { "alloc_label_at_a_ge" } else { "alloc_label_at_a_not_ge" });
                }
                if m.ptrs.values().any(|t| t == a) {
                    c.sit(if *ge { "alloc_target_at_a_ge" } else { "alloc_target_at_a_not_ge" });
                }
                if m.cstr.keys().any(|k| k < a) {
                    c.sit("alloc_cstr_before_a");
                }
                if m.cstr.contains_key(a) {
                    c.sit("alloc_cstr_at_a");
                }
                if m.cstr.keys().any(|k| k > a) {
                    c.sit("alloc_cstr_after_a");
                }
            } else if *a > m.size() {
                c.sit("alloc_rejected_out_of_range");
            } else {
                c.sit("alloc_rejected_misaligned");
            }
            if let SOp::WriterAllocate(a, n, _) = op {
                if *a == m.size() && n % 4 != 0 {
                    c.sit("writer_allocate_at_end_unaligned_amount");
                }
            }
        }
        SOp::Deallocate(a, n, _) => {
            if m.dealloc_ok(*a, *n) {
                if *n > 0 {
                    if m.ptrs.keys().any(|s| s >= a && *s < a + n) {
                        c.sit("dealloc_pointer_source_inside");
                    }
                    if m.ptrs.iter().any(|(s, t)| (*s < *a || *s >= a + n) && t >= a && *t < a + n) {
                        c.sit("dealloc_pointer_target_inside");
                    }
                    if m.labels.contains_key(&(a + n)) {
                        c.sit("dealloc_label_at_a_plus_n");
                    }
                    if m.labels.contains_key(&m.size()) {
                        c.sit("dealloc_label_at_size");
                    }
                    if m.labels.keys().any(|k| k % 4 != 0 && k > a && *k < a + n) {
                        c.sit("dealloc_unaligned_label_inside");
                    }
                    if m.cstr.keys().any(|k| k >= a && *k < a + n) {
                        c.sit("dealloc_cstr_inside");
                    }
                    if m.cstr.keys().any(|k| *k >= a + n) {
                        c.sit("dealloc_cstr_after");
                    }
                }
            } else if *n > usize::MAX / 2 || *a > usize::MAX / 2 {
                c.sit("dealloc_rejected_near_limit");
            } else if a % 4 != 0 || n % 4 != 0 {
                c.sit("dealloc_rejected_misaligned");
            } else {
                c.sit("dealloc_rejected_out_of_range");
            }
        }
        SOp::Truncate(a) => {
            if *a < m.size() && a % 4 == 0 {
                if m.labels.contains_key(a) {
                    c.sit("truncate_label_at_cut");
                }
                if m.labels.contains_key(&m.size()) {
                    c.sit("truncate_label_at_old_end");
                }
                if m.labels.keys().any(|k| k % 4 != 0 && k > a) {
                    c.sit("truncate_unaligned_label_beyond_cut");
                }
                if m.cstr.keys().any(|k| k >= a) {
                    c.sit("truncate_cstr_beyond_cut");
                }
                if m.ptrs.iter().any(|(s, t)| s < a && t >= a) {
                    c.sit("truncate_pointer_across_cut");
                }
            } else if *a >= m.size() {
                c.sit("truncate_noop_beyond_end");
            }
        }
        _ => {}
    }
}

/// Execute one structural op on both, compare. Returns false if a violation was recorded.
pub fn exec(c: &mut Case, real: &mut BinArchive, model: &mut RefArchive, op: &SOp) -> bool {
    if let SOp::Cell(o) = op {
        return c04::exec(c, real, model, o, false);
    }
    if let SOp::WriterSeq(steps) = op {
        return exec_writer_seq(c, real, model, steps);
    }
    let be = model.be;
    sit_for(c, model, op);
    let before = match archive::observe(real, be) {
        Ok(b) => b,
        Err(e) => {
            c.fail("state", "state", format!("inconsistent state before {:?}: {}", op, e));
            return false;
        }
    };
    if let Some(d) = archive::diff(model, &before) {
        c.st.harness_errors.push(format!("model and archive out of sync before {:?}: {}", op, d));
        return false;
    }
    let mut m2 = model.clone();
    // expectation: Some(ok?) ; None = not asserted
    let expect_ok: Option<bool> = match op {
        SOp::Allocate(a, n, ge) => Some(m2.allocate(*a, *n, *ge)),
        SOp::AllocateAtEnd(n) => {
            m2.allocate_at_end(*n);
            Some(true)
        }
        SOp::WriterAllocate(pos, n, ge) => {
            if *pos == m2.size() {
                m2.allocate_at_end(*n);
                Some(true)
            } else {
                Some(m2.allocate(*pos, *n, *ge))
            }
        }
        SOp::WriterAllocateAtEnd(_, n) => {
            m2.allocate_at_end(*n);
            Some(true)
        }
        SOp::Deallocate(a, n, ge) => Some(m2.deallocate(*a, *n, *ge)),
        SOp::Truncate(a) => {
            if a % 4 == 0 || *a >= m2.size() {
                m2.truncate(*a);
                Some(true)
            } else {
                None
            }
        }
        SOp::WriteCString(cell, s, _) => {
            if m2.cell_ok(*cell) {
                m2.cstr.insert(*cell, s.clone());
                Some(true)
            } else {
                Some(false)
            }
        }
        SOp::Cell(_) | SOp::WriterSeq(_) => unreachable!(),
    };
    let what = format!("{:?}", op);
    let res = c.lib(&what, || -> Result<(), String> {
        match op {
            SOp::Allocate(a, n, ge) => real.allocate(*a, *n, *ge).map_err(|e| e.to_string()),
            SOp::AllocateAtEnd(n) => {
                real.allocate_at_end(*n);
                Ok(())
            }
            SOp::WriterAllocate(pos, n, ge) => {
                let mut w = BinArchiveWriter::new(real, *pos);
                w.allocate(*n, *ge).map_err(|e| e.to_string())
            }
            SOp::WriterAllocateAtEnd(pos, n) => {
                let mut w = BinArchiveWriter::new(real, *pos);
                w.allocate_at_end(*n);
                Ok(())
            }
            SOp::Deallocate(a, n, ge) => real.deallocate(*a, *n, *ge).map_err(|e| e.to_string()),
            SOp::Truncate(a) => real.truncate(*a).map_err(|e| e.to_string()),
            SOp::WriteCString(cell, s, via_writer) => {
                if *via_writer {
                    let mut w = BinArchiveWriter::new(real, *cell);
                    let r = w.write_c_string(s.clone()).map_err(|e| e.to_string());
                    if r.is_ok() && w.tell() != cell + 4 {
                        return Err(format!("CURSOR: write_c_string moved the cursor to {}", w.tell()));
                    }
                    r
                } else {
                    real.write_c_string(*cell, s.clone()).map_err(|e| e.to_string())
                }
            }
            SOp::Cell(_) | SOp::WriterSeq(_) => unreachable!(),
        }
    });
    let res = match res {
        None => return false,
        Some(r) => r,
    };
    let opname = what.split('(').next().unwrap_or("?").to_string();
    let ctx = |m: &str| format!("{} on {}: {}", what, before.describe(), m);
    if let Err(e) = &res {
        if e.starts_with("CURSOR") {
            c.fail("cursor", "cursor:WriteCString", ctx(e));
            return false;
        }
    }
    match (expect_ok, &res) {
        (Some(true), Err(e)) => {
            c.fail("wrong_reject", &format!("wrong_reject:{}", opname), ctx(&format!("valid request rejected with Err({})", e)));
            return false;
        }
        (Some(false), Ok(())) => {
            c.fail("wrong_accept", &format!("wrong_accept:{}", opname), ctx("misaligned / out-of-range request was accepted"));
            return false;
        }
        _ => {}
    }
    let after = match archive::observe(real, be) {
        Ok(a) => a,
        Err(e) => {
            c.fail("state", &format!("state:{}", opname), ctx(&format!("inconsistent state after the call: {}", e)));
            return false;
        }
    };
    if res.is_err() {
        if let Some(d) = archive::diff(&before, &after) {
            c.fail("rejected_changed_state", &format!("err_changed_state:{}", opname), ctx(&format!("request was rejected but the archive changed: {}", d)));
            return false;
        }
        return true;
    }
    if expect_ok.is_none() {
        // unaligned truncate: the statement only covers cell boundaries; adopt what happened
        *model = after;
        return true;
    }
    if let SOp::Truncate(a) = op {
        // leniency: pointer before the cut whose target is at/after it may be kept or dropped
        let keys: Vec<usize> = m2.ptrs.iter().filter(|(_, t)| **t >= *a).map(|(s, _)| *s).collect();
        for k in keys {
            if !after.ptrs.contains_key(&k) {
                m2.ptrs.remove(&k);
            }
        }
    }
    if let Some(d) = archive::diff(&m2, &after) {
        c.fail(
            "relocation",
            &format!("relocation:{}", opname),
            ctx(&format!("state after the operation differs from the model: {}; got {}", d, after.describe())),
        );
        *model = after;
        return false;
    }
    let moved = before.text != after.text || before.ptrs != after.ptrs || before.labels != after.labels || before.cstr != after.cstr;
    if moved && !matches!(op, SOp::WriteCString(..)) {
        c.stat_add("ops_that_moved_or_deleted_annotations", 1.0);
    }
    *model = m2;
    true
}

/// serialize -> reference reader -> same content (only meaningful inside C01's domain)
pub fn final_roundtrip(c: &mut Case, real: &BinArchive, model: &RefArchive) {
    let in_domain = model.text.keys().chain(model.ptrs.keys()).chain(model.cstr.keys()).all(|k| k % 4 == 0 && model.cell_ok(*k))
        && model.labels.keys().all(|k| *k <= model.size())
        && model.ptrs.values().all(|t| *t <= model.size())
        && model.text.keys().all(|k| !model.ptrs.contains_key(k) && !model.cstr.contains_key(k))
        && model.ptrs.keys().all(|k| !model.cstr.contains_key(k));
    if !in_domain {
        // e.g. an annotated cell straddling the end after an unaligned truncate: what serialize
        // returns is not specified, but it must return (Ok or Err) without panicking or touching
        // memory it does not own (guard-mode canaries / sanitizer lanes watch)
        c.outcome("final_state_outside_c01_domain");
        let _ = c.lib_stable("serialize (final state outside the domain)", || real.serialize().map_err(|e| e.to_string()));
        return;
    }
    match c.lib("serialize (final state)", || real.serialize()) {
        None => {}
        Some(Err(e)) => c.fail("final_serialize", "final_serialize_err", format!("final state does not serialize: {} state={}", e, model.describe())),
        Some(Ok(img)) => match image::parse_strict(&img, model.be) {
            Err(e) => c.fail("final_serialize", "final_image_malformed", format!("final state serializes to a malformed image: {} state={}", e, model.describe())),
            Ok(p) => {
                let rd = |cell: usize| -> Result<Option<String>, String> {
                    match p.arch.ptrs.get(&cell) {
                        None => Ok(None),
                        Some(t) => {
                            let rest = p.arch.data.get(*t..).ok_or("target outside data")?;
                            let n = rest.iter().position(|b| *b == 0).ok_or("unterminated")?;
                            Ok(Some(sjis_decode(&rest[..n]).0))
                        }
                    }
                };
                if let Some(d) = check_flat(model, &p.arch, &rd) {
                    c.fail("final_serialize", "final_image_content", format!("final state serializes to different content: {} state={}", d, model.describe()));
                } else {
                    c.outcome("final_roundtrip_ok");
                }
            }
        },
    }
}

fn pattern(cells: usize, which: usize, be: bool) -> RefArchive {
    let mut m = RefArchive::new(be);
    let size = cells * 4;
    m.data = (0..size).map(|i| (i as u8).wrapping_mul(29).wrapping_add(3)).collect();
    match which {
        0 => {
            // every cell a pointer to the next cell boundary; labels everywhere
            for i in 0..cells {
                m.ptrs.insert(i * 4, i * 4 + 4);
            }
            for a in (0..=size).step_by(4) {
                m.labels.insert(a, vec![format!("L{}", a)]);
            }
            if size >= 4 {
                m.labels.insert(2, vec!["odd2".into()]);
            }
            if size >= 8 {
                m.labels.insert(6, vec!["odd6".into()]);
            }
        }
        1 => {
            let kinds = ["s", "c", "p", "s"];
            for i in 0..cells {
                match kinds[i % 4] {
                    "s" => {
                        m.text.insert(i * 4, "s0".into());
                    }
                    "c" => {
                        m.cstr.insert(i * 4, "c1".into());
                    }
                    _ => {
                        m.ptrs.insert(i * 4, 0);
                    }
                }
            }
            m.labels.insert(0, vec!["a".into(), "b".into()]);
            m.labels.insert(size, vec!["end".into()]);
            if size >= 8 {
                m.labels.insert(5, vec!["odd".into()]);
            }
        }
        _ => {
            // c-strings on every cell, pointers cannot coexist: labels at the ends
            for i in 0..cells {
                m.cstr.insert(i * 4, format!("c{}", i % 2));
            }
            m.labels.insert(size, vec!["end".into()]);
        }
    }
    m
}

fn struct_ops(size: usize, small: bool) -> Vec<SOp> {
    let mut v = Vec::new();
    let addrs: Vec<usize> = if small {
        let mut a: Vec<usize> = (0..=size + 4).step_by(4).collect();
        a.push(2);
        a
    } else {
        (0..=size + 5).collect()
    };
    let amounts: Vec<usize> = if small {
        vec![0, 4, 8]
    } else {
        let mut n = vec![0, 1, 2, 4, 8, 12, size, size + 4];
        n.dedup();
        n
    };
    for &a in &addrs {
        for &n in &amounts {
            for ge in [false, true] {
                v.push(SOp::Allocate(a, n, ge));
                v.push(SOp::Deallocate(a, n, ge));
            }
        }
        v.push(SOp::Truncate(a));
    }
    v
}

fn run_seq(c: &mut Case, start: &RefArchive, ops: &[SOp]) {
    let mut model = start.clone();
    let mut real = match archive::build_real_plain(&model) {
        Ok(r) => r,
        Err(e) => {
            c.st.harness_errors.push(format!("cannot build start archive: {}", e));
            return;
        }
    };
    for op in ops {
        if !exec(c, &mut real, &mut model, op) {
            return;
        }
    }
    final_roundtrip(c, &real, &model);
}

fn gen_sop(rng: &mut Rng, m: &RefArchive) -> SOp {
    let size = m.size();
    let aligned = |rng: &mut Rng, max: usize| (rng.range(0, max) / 4) * 4;
    let amount = |rng: &mut Rng| match rng.below(8) {
        0 => 0,
        1 => rng.range(1, 3),
        2 => rng.range(1, 64),
        _ => 4 * rng.range(1, 6),
    };
    let huge = |rng: &mut Rng| usize::MAX - rng.range(0, 8);
    // annotation cells are usually 4-byte aligned, but any address with four bytes of room is accepted
    let cell_addr = |rng: &mut Rng, max: usize| if rng.chance(1, 10) { rng.range(0, max) } else { (rng.range(0, max) / 4) * 4 };
    if rng.chance(1, 12) {
        return SOp::WriterSeq(gen_writer_seq(rng, m));
    }
    match rng.below(24) {
        0 | 1 | 2 => {
            let a = if rng.chance(1, 8) { rng.range(0, size + 6) } else { aligned(rng, size) };
            SOp::Allocate(a, amount(rng), rng.bool())
        }
        3 => SOp::AllocateAtEnd(amount(rng)),
        4 => {
            let pos = if rng.chance(1, 3) { size } else { aligned(rng, size + 4) };
            SOp::WriterAllocate(pos, amount(rng), rng.bool())
        }
        5 => SOp::WriterAllocateAtEnd(rng.range(0, size), amount(rng)),
        6 | 7 | 8 => {
            let a = if rng.chance(1, 8) { rng.range(0, size + 6) } else { aligned(rng, size) };
            let n = if rng.chance(1, 6) { amount(rng) } else { 4 * rng.range(0, ((size.saturating_sub(a)) / 4).min(6)) };
            SOp::Deallocate(a, n, rng.bool())
        }
        9 => match rng.below(4) {
            0 => SOp::Deallocate(aligned(rng, size), huge(rng) & !3, rng.bool()),
            1 => SOp::Deallocate(huge(rng), 4, rng.bool()),
            2 => SOp::Allocate(huge(rng) & !3, 4, rng.bool()),
            _ => SOp::Truncate(huge(rng)),
        },
        10 => {
            // (one in four: the last cell boundary, which cuts a tail of 0..3 bytes)
            let a = if rng.chance(1, 5) { size + aligned(rng, 8) } else if rng.chance(1, 4) { size & !3 } else { aligned(rng, size) };
            SOp::Truncate(a)
        }
        11 | 12 => {
            // c-string on a free cell
            let cell = cell_addr(rng, size);
            if m.cell_ok(cell) && !m.occupied(cell) {
                SOp::WriteCString(cell, gen_sjis(rng, 5), rng.bool())
            } else {
                SOp::AllocateAtEnd(4)
            }
        }
        13 | 14 => {
            let cell = cell_addr(rng, size);
            if m.cell_ok(cell) && !m.ptrs.contains_key(&cell) && !m.cstr.contains_key(&cell) {
                SOp::Cell(Op::WriteString(cell, Some(gen_sjis(rng, 5))))
            } else {
                SOp::Cell(Op::DeletePointer(cell))
            }
        }
        15 | 16 => {
            let cell = cell_addr(rng, size);
            if m.cell_ok(cell) && !m.text.contains_key(&cell) && !m.cstr.contains_key(&cell) {
                let t = match rng.below(3) {
                    0 => size,
                    1 => rng.range(0, size),
                    _ => aligned(rng, size),
                };
                // a destination is an unvalidated number: now and then one far beyond the data
                let t = if rng.chance(1, 25) { *rng.pick(&[(1usize << 63) + 0x40, (1usize << 63), (1usize << 62) + 4, (u32::MAX as usize) + 8, size + 400]) } else { t };
                SOp::Cell(Op::WritePointer(cell, Some(t)))
            } else {
                SOp::Cell(Op::DeleteString(cell))
            }
        }
        17 | 18 | 19 => {
            let a = match rng.below(4) {
                0 => size,
                1 => rng.range(0, size),
                _ => aligned(rng, size),
            };
            SOp::Cell(Op::WriteLabel(a, gen_ident(rng, 4)))
        }
        20 => SOp::Cell(Op::Write(Acc::U32, aligned(rng, size), rng.u32())),
        21 => SOp::Cell(Op::DeleteLabels(aligned(rng, size))),
        22 => SOp::Cell(Op::DeleteLabel(aligned(rng, size), rng.below(2))),
        _ => {
            let n = rng.range(0, 8);
            SOp::Cell(Op::WriteBytes(rng.range(0, size), rng.bytes(n)))
        }
    }
}

pub const REQUIRED: &[&str] = &[
    "alloc_label_at_a_ge",
    "alloc_label_at_a_not_ge",
    "alloc_target_at_a_ge",
    "alloc_target_at_a_not_ge",
    "alloc_cstr_before_a",
    "alloc_cstr_at_a",
    "alloc_cstr_after_a",
    "alloc_rejected_out_of_range",
    "alloc_rejected_misaligned",
    "writer_allocate_at_end_unaligned_amount",
    "dealloc_pointer_source_inside",
    "dealloc_pointer_target_inside",
    "dealloc_label_at_a_plus_n",
    "dealloc_label_at_size",
    "dealloc_unaligned_label_inside",
    "dealloc_cstr_inside",
    "dealloc_cstr_after",
    "dealloc_rejected_near_limit",
    "dealloc_rejected_misaligned",
    "dealloc_rejected_out_of_range",
    "truncate_label_at_cut",
    "truncate_label_at_old_end",
    "truncate_unaligned_label_beyond_cut",
    "truncate_cstr_beyond_cut",
    "truncate_pointer_across_cut",
    "truncate_noop_beyond_end",
    "long_lived_writer_sequence",
];

pub fn run(cx: &mut Ctx) {
    cx.require(REQUIRED);
    cx.rule = "bounded-exhaustive: archives of 0..=4 cells carrying fixed 'one of everything' annotation patterns x every allocate/deallocate(a,n,ge), truncate(a) with a in 0..=size+5, n in {0,1,2,4,8,12,size,size+4}; all pairs of such operations on archives of <=3 cells; directed near-limit requests; random histories of 5-60 structural/write/delete operations. After EVERY operation the full state (verif_snapshot hook cross-checked with size/read_bytes/read_string/read_pointer/all_labels/pointer_destinations) is compared with the reference model; final states are serialized and read by the reference reader. non-trivial = history in which an annotation moved or was deleted by a structural op; distinct by op-sequence hash".into();
    let maxcells = if cfg!(miri) { 1 } else { 4 };
    // single operations, exhaustive
    for cells in 0..=maxcells {
        for which in 0..3 {
            for be in [false, true] {
                if be && which != 1 {
                    continue; // endianness does not enter relocation; one pattern in BE is enough
                }
                let start = pattern(cells, which, be);
                for (oi, op) in struct_ops(cells * 4, cfg!(miri)).into_iter().enumerate() {
                    if cfg!(miri) && oi % 3 != 0 {
                        continue; // Miri is a UB smoke lane: a third of the (already reduced) grid
                    }
                    cx.case("single_op", |c| {
                        c.nontrivial(fnv(format!("{}|{}|{}|{:?}", cells, which, be, op).as_bytes()));
                        run_seq(c, &start, &[op.clone()]);
                    });
                }
                // writer.allocate at every cursor with unaligned amounts
                for pos in (0..=cells * 4 + 4).step_by(4) {
                    for n in [0usize, 1, 3, 4, 6] {
                        cx.case("single_writer_allocate", |c| {
                            run_seq(c, &start, &[SOp::WriterAllocate(pos, n, true)]);
                        });
                    }
                }
            }
        }
    }
    // pairs, exhaustive over the reduced grid
    let pair_cells = if cfg!(miri) { 1 } else { 3 };
    for cells in (if cfg!(miri) { 1 } else { 0 })..=pair_cells {
        for which in (if cfg!(miri) { 1 } else { 0 })..2 {
            let start = pattern(cells, which, false);
            let first = struct_ops(cells * 4, true);
            for (i, op1) in first.iter().enumerate() {
                if cfg!(miri) && i % 9 != 0 {
                    continue;
                }
                // the second op is drawn over the size reached after op1 (at most size+8)
                cx.case("op_pairs", |c| {
                    let mut m = start.clone();
                    let mut probe = m.clone();
                    let ok1 = match op1 {
                        SOp::Allocate(a, n, ge) => probe.allocate(*a, *n, *ge),
                        SOp::Deallocate(a, n, ge) => probe.deallocate(*a, *n, *ge),
                        SOp::Truncate(a) => {
                            probe.truncate(*a);
                            true
                        }
                        _ => true,
                    };
                    let _ = &mut m;
                    let second = struct_ops(probe.size(), true);
                    let mut k = 0u64;
                    for (j, op2) in second.iter().enumerate() {
                        if cfg!(miri) && j % 7 != 0 {
                            continue;
                        }
                        run_seq(c, &start, &[op1.clone(), op2.clone()]);
                        c.nontrivial(fnv(format!("pair|{}|{}|{}|{:?}", cells, which, i, op2).as_bytes()));
                        k += 1;
                        if !ok1 {
                            break; // a rejected first op leaves the start state: covered by single ops
                        }
                    }
                    c.eval(k);
                });
            }
        }
    }
    // directed near-limit requests
    cx.case("near_limit", |c| {
        for be in [false, true] {
            let start = pattern(3, 1, be);
            for k in 0..(if cfg!(miri) { 2usize } else { 8 }) {
                for a in [0usize, 4, 8] {
                    run_seq(c, &start, &[SOp::Deallocate(a, (usize::MAX - k) & !3, false)]);
                    run_seq(c, &start, &[SOp::Deallocate(a, usize::MAX - k, true)]);
                }
                run_seq(c, &start, &[SOp::Deallocate(usize::MAX - k, 4, false)]);
                // invalid insert requests (misaligned / out-of-range address, or misaligned amount)
                // with amounts near the integer limit must be rejected like any other invalid request
                run_seq(c, &start, &[SOp::Allocate(2, (usize::MAX - k) & !3, false)]);
                run_seq(c, &start, &[SOp::Allocate(16, (usize::MAX - k) & !3, true)]);
                run_seq(c, &start, &[SOp::Allocate(4, (usize::MAX - k) | 1, true)]);
                run_seq(c, &start, &[SOp::WriterAllocate(6, (usize::MAX - k) & !3, false)]);
                run_seq(c, &start, &[SOp::Allocate(usize::MAX - k, 4, false)]);
                run_seq(c, &start, &[SOp::Truncate(usize::MAX - k)]);
                run_seq(c, &start, &[SOp::WriterAllocate(usize::MAX - k, 4, false)]);
            }
        }
    });
    // directed: one long-lived writer (append, go back to the old end, insert there; insert, then write past the old size)
    cx.case("long_lived_writer", |c| {
        for be in [false, true] {
            for which in 0..3 {
                let start = pattern(3, which, be);
                for ge in [false, true] {
                    run_seq(c, &start, &[SOp::WriterSeq(vec![WStep::AllocAtEnd(8), WStep::Seek(12), WStep::WriteU32(0xAABBCCDD), WStep::Seek(12), WStep::Alloc(4, ge), WStep::WriteLabel("L".into())])]);
                    run_seq(c, &start, &[SOp::WriterSeq(vec![WStep::Seek(4), WStep::Alloc(8, ge), WStep::Seek(10), WStep::WriteBytes(vec![1, 2, 3, 4, 5, 6, 7, 8, 9]), WStep::Seek(16), WStep::WriteU32(7)])]);
                    run_seq(c, &start, &[SOp::WriterSeq(vec![WStep::Seek(12), WStep::Alloc(4, ge), WStep::Alloc(4, ge), WStep::Seek(12), WStep::Alloc(4, ge), WStep::WriteString(Some("s".into()))])]);
                }
            }
        }
    });
    // random histories
    let n = cx.a.n(300_000, 4_000_000);
    let quick = cx.a.quick();
    for _ in 0..n {
        cx.case("history", |c| {
            let mut rng = c.rng.clone();
            let o = archive::GenOpts {
                max_cells: if cfg!(miri) { 5 } else if quick { 64 } else if rng.chance(1, 50) { 1024 } else { 96 },
                allow_unaligned_len: false,
                cstrings: true,
                max_labels: 16,
                string_len: 5,
            };
            let start = archive::gen_content(&mut rng, &o);
            let mut model = start.clone();
            let mut real = match archive::build_real(&model, &mut rng) {
                Ok(r) => r,
                Err(e) => {
                    c.st.harness_errors.push(format!("cannot build start archive: {}", e));
                    return;
                }
            };
            let len = if cfg!(miri) { rng.range(3, 12) } else { rng.range(5, 60) };
            let mut hist: Vec<String> = Vec::new();
            let mut h = start.fingerprint();
            let moved0 = c.st.stat_sum.get("ops_that_moved_or_deleted_annotations").copied().unwrap_or(0.0);
            let mut completed = true;
            for _ in 0..len {
                let op = gen_sop(&mut rng, &model);
                let d = format!("{:?}", op);
                h = crate::prng::fnv_add(h, d.as_bytes());
                if hist.len() < 10 {
                    hist.push(d);
                }
                if !exec(c, &mut real, &mut model, &op) {
                    completed = false;
                    break;
                }
            }
            c.eval(len as u64);
            if completed {
                final_roundtrip(c, &real, &model);
            }
            let moved1 = c.st.stat_sum.get("ops_that_moved_or_deleted_annotations").copied().unwrap_or(0.0);
            if moved1 > moved0 {
                c.nontrivial(h);
                c.sample("history", || {
                    J::obj(vec![
                        ("start", J::s(start.describe())),
                        ("ops_total", J::U(len as u64)),
                        ("first_ops", J::A(hist.iter().map(J::s).collect())),
                        ("final_state", J::s(model.describe())),
                        ("observed", J::s("model and archive equal after every operation; final state serialized and read back by the reference reader")),
                    ])
                });
            }
        });
    }
}
