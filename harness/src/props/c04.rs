//! C04 — cell access is bounds-safe, endian-correct and local (positional and stream API).
use crate::ctx::{Case, Ctx};
use crate::json::J;
use crate::prng::{fnv, Rng};
use crate::refs::archive::{self, RefArchive};
use crate::refs::strings::{gen_ident, gen_sjis, sjis_decode, sjis_ok};
use mila::{BinArchive, BinArchiveReader, BinArchiveWriter};

#[derive(Clone, Copy, Debug, PartialEq)]
pub enum Acc {
    U8,
    I8,
    U16,
    I16,
    U32,
    I32,
    F32,
}
pub const ACCS: [Acc; 7] = [Acc::U8, Acc::I8, Acc::U16, Acc::I16, Acc::U32, Acc::I32, Acc::F32];
impl Acc {
    pub fn width(self) -> usize {
        match self {
            Acc::U8 | Acc::I8 => 1,
            Acc::U16 | Acc::I16 => 2,
            _ => 4,
        }
    }
}

#[derive(Clone, Debug)]
pub enum Op {
    Read(Acc, usize),
    Write(Acc, usize, u32),
    ReadBytes(usize, usize),
    WriteBytes(usize, Vec<u8>),
    ReadString(usize),
    ReadPointer(usize),
    ReadLabels(usize),
    ReadLabelIdx(usize, usize),
    ReadCString(usize),
    WriteString(usize, Option<String>),
    WritePointer(usize, Option<usize>),
    WriteLabel(usize, String),
    WriteLabels(usize, Vec<String>),
    DeleteString(usize),
    DeletePointer(usize),
    DeleteLabels(usize),
    DeleteLabel(usize, usize),
}

fn enc(v: u32, w: usize, be: bool) -> Vec<u8> {
    match w {
        1 => vec![v as u8],
        2 => {
            if be {
                (v as u16).to_be_bytes().to_vec()
            } else {
                (v as u16).to_le_bytes().to_vec()
            }
        }
        _ => {
            if be {
                v.to_be_bytes().to_vec()
            } else {
                v.to_le_bytes().to_vec()
            }
        }
    }
}
fn dec(b: &[u8], be: bool) -> u32 {
    match b.len() {
        1 => b[0] as u32,
        2 => {
            let a = [b[0], b[1]];
            (if be { u16::from_be_bytes(a) } else { u16::from_le_bytes(a) }) as u32
        }
        _ => {
            let a = [b[0], b[1], b[2], b[3]];
            if be {
                u32::from_be_bytes(a)
            } else {
                u32::from_le_bytes(a)
            }
        }
    }
}

#[derive(Debug, PartialEq, Clone)]
pub enum Val {
    Bits(u32),
    Bytes(Vec<u8>),
    Str(Option<String>),
    Ptr(Option<usize>),
    Labels(Option<Vec<String>>),
    Unit,
}

pub fn addr_class(a: usize, w: usize, size: usize) -> &'static str {
    if a >= 1 << 30 {
        "huge"
    } else if a as u128 + w as u128 <= size as u128 && a < size {
        "inside"
    } else if a < size {
        "straddles_end"
    } else if a == size {
        "at_end"
    } else {
        "beyond"
    }
}

/// Execute one access on the real archive (positionally or through a stream at cursor `addr`),
/// step the model, compare everything. Returns false when a violation was recorded.
pub fn exec(c: &mut Case, real: &mut BinArchive, model: &mut RefArchive, op: &Op, stream: bool) -> bool {
    let be = model.be;
    let size = model.size();
    let before = match archive::observe_hook(real, be) {
        Ok(b) => b,
        Err(e) => {
            c.fail("state", "state", format!("inconsistent state before {:?}: {}", op, e));
            return false;
        }
    };
    // ---- expectation from the model -------------------------------------------------------
    // (Some(true)=must succeed, Some(false)=must fail, None=not asserted), expected value, width
    let (must, exp_val, width, lenient_err): (Option<bool>, Option<Val>, usize, bool) = match op {
        Op::Read(acc, a) => {
            let w = acc.width();
            if model.range_ok(*a, w) {
                (Some(true), Some(Val::Bits(dec(&model.data[*a..*a + w], be))), w, false)
            } else {
                (Some(false), None, w, false)
            }
        }
        Op::Write(acc, a, v) => {
            let w = acc.width();
            if model.range_ok(*a, w) {
                let b = enc(*v, w, be);
                model.data[*a..*a + w].copy_from_slice(&b);
                (Some(true), Some(Val::Unit), w, false)
            } else {
                (Some(false), None, w, false)
            }
        }
        Op::ReadBytes(a, n) => {
            if *n == 0 {
                (None, None, 0, false)
            } else if model.range_ok(*a, *n) {
                (Some(true), Some(Val::Bytes(model.data[*a..*a + *n].to_vec())), *n, false)
            } else {
                (Some(false), None, *n, false)
            }
        }
        Op::WriteBytes(a, v) => {
            if v.is_empty() {
                (None, None, 0, false)
            } else if model.range_ok(*a, v.len()) {
                model.data[*a..*a + v.len()].copy_from_slice(v);
                (Some(true), Some(Val::Unit), v.len(), false)
            } else {
                (Some(false), None, v.len(), false)
            }
        }
        Op::ReadString(a) => {
            if model.cell_ok(*a) {
                (Some(true), Some(Val::Str(model.text.get(a).cloned())), 4, false)
            } else {
                (None, Some(Val::Str(None)), 4, true)
            }
        }
        Op::ReadPointer(a) => {
            if model.cell_ok(*a) {
                (Some(true), Some(Val::Ptr(model.ptrs.get(a).cloned())), 4, false)
            } else {
                (None, Some(Val::Ptr(None)), 4, true)
            }
        }
        Op::ReadLabels(a) => {
            let l = model.labels.get(a).cloned();
            if model.cell_ok(*a) {
                (Some(true), Some(Val::Labels(l)), 0, false)
            } else {
                (None, Some(Val::Labels(l)), 0, true)
            }
        }
        Op::ReadLabelIdx(a, i) => {
            let l = model.labels.get(a).and_then(|b| b.get(*i).cloned());
            if model.cell_ok(*a) {
                (Some(true), Some(Val::Str(l)), 0, false)
            } else {
                (None, Some(Val::Str(l)), 0, true)
            }
        }
        Op::ReadCString(a) => {
            if !model.cell_ok(*a) {
                (None, Some(Val::Str(None)), 4, true)
            } else {
                match model.ptrs.get(a) {
                    None => (Some(true), Some(Val::Str(None)), 4, false),
                    Some(p) if *p < size => {
                        let rest = &model.data[*p..];
                        match rest.iter().position(|b| *b == 0) {
                            None => (Some(false), None, 4, false),
                            Some(n) => {
                                let (s, err) = sjis_decode(&rest[..n]);
                                if !err && sjis_ok(&s) {
                                    (Some(true), Some(Val::Str(Some(s))), 4, false)
                                } else {
                                    (Some(true), None, 4, false) // value outside the text domain: not compared
                                }
                            }
                        }
                    }
                    Some(_) => (Some(false), None, 4, false),
                }
            }
        }
        Op::WriteString(a, v) => {
            if model.cell_ok(*a) {
                match v {
                    Some(s) => {
                        model.text.insert(*a, s.clone());
                    }
                    None => {
                        model.text.remove(a);
                    }
                }
                (Some(true), Some(Val::Unit), 4, false)
            } else {
                (Some(false), None, 4, false)
            }
        }
        Op::WritePointer(a, v) => {
            if model.cell_ok(*a) {
                match v {
                    Some(p) => {
                        model.ptrs.insert(*a, *p);
                    }
                    None => {
                        model.ptrs.remove(a);
                    }
                }
                (Some(true), Some(Val::Unit), 4, false)
            } else {
                (Some(false), None, 4, false)
            }
        }
        Op::WriteLabel(a, l) => {
            if model.write_label(*a, l) {
                (Some(true), Some(Val::Unit), 0, false)
            } else {
                (Some(false), None, 0, false)
            }
        }
        Op::WriteLabels(a, ls) => {
            if model.write_labels(*a, ls.clone()) {
                (Some(true), Some(Val::Unit), 0, false)
            } else {
                (Some(false), None, 0, false)
            }
        }
        Op::DeleteString(a) => {
            if model.cell_ok(*a) {
                model.text.remove(a);
                (Some(true), Some(Val::Unit), 0, false)
            } else {
                (Some(false), None, 0, false)
            }
        }
        Op::DeletePointer(a) => {
            if model.cell_ok(*a) {
                model.ptrs.remove(a);
                (Some(true), Some(Val::Unit), 0, false)
            } else {
                (Some(false), None, 0, false)
            }
        }
        Op::DeleteLabels(a) => {
            if model.cell_ok(*a) {
                model.labels.remove(a);
                (Some(true), Some(Val::Unit), 0, false)
            } else {
                (Some(false), None, 0, false)
            }
        }
        Op::DeleteLabel(a, i) => {
            if model.cell_ok(*a) {
                match model.labels.get_mut(a) {
                    Some(b) if *i < b.len() => {
                        b.remove(*i);
                        (Some(true), Some(Val::Unit), 0, false)
                    }
                    Some(_) => (None, None, 0, false), // index out of range: Ok or Err, but no change
                    None => (Some(true), Some(Val::Unit), 0, false),
                }
            } else {
                (Some(false), None, 0, false)
            }
        }
    };
    // ---- the real call ----------------------------------------------------------------------
    let addr = match op {
        Op::Read(_, a) | Op::Write(_, a, _) | Op::ReadBytes(a, _) | Op::WriteBytes(a, _) | Op::ReadString(a)
        | Op::ReadPointer(a) | Op::ReadLabels(a) | Op::ReadLabelIdx(a, _) | Op::ReadCString(a) | Op::WriteString(a, _)
        | Op::WritePointer(a, _) | Op::WriteLabel(a, _) | Op::WriteLabels(a, _) | Op::DeleteString(a)
        | Op::DeletePointer(a) | Op::DeleteLabels(a) | Op::DeleteLabel(a, _) => *a,
    };
    let mut tell_after: Option<usize> = None;
    let place = (addr ^ size ^ (width << 1)) % 3;
    let what = format!("{}{:?}", if stream { "stream " } else { "" }, op);
    let res: Option<Result<Val, String>> = c.lib(&what, || {
        let es = |e: mila::ArchiveError| e.to_string();
        if !stream {
            match op {
                Op::Read(acc, a) => match acc {
                    Acc::U8 => real.read_u8(*a).map(|v| Val::Bits(v as u32)).map_err(es),
                    Acc::I8 => real.read_i8(*a).map(|v| Val::Bits(v as u8 as u32)).map_err(es),
                    Acc::U16 => real.read_u16(*a).map(|v| Val::Bits(v as u32)).map_err(es),
                    Acc::I16 => real.read_i16(*a).map(|v| Val::Bits(v as u16 as u32)).map_err(es),
                    Acc::U32 => real.read_u32(*a).map(Val::Bits).map_err(es),
                    Acc::I32 => real.read_i32(*a).map(|v| Val::Bits(v as u32)).map_err(es),
                    Acc::F32 => real.read_f32(*a).map(|v| Val::Bits(v.to_bits())).map_err(es),
                },
                Op::Write(acc, a, v) => match acc {
                    Acc::U8 => real.write_u8(*a, *v as u8),
                    Acc::I8 => real.write_i8(*a, *v as u8 as i8),
                    Acc::U16 => real.write_u16(*a, *v as u16),
                    Acc::I16 => real.write_i16(*a, *v as u16 as i16),
                    Acc::U32 => real.write_u32(*a, *v),
                    Acc::I32 => real.write_i32(*a, *v as i32),
                    Acc::F32 => real.write_f32(*a, f32::from_bits(*v)),
                }
                .map(|_| Val::Unit)
                .map_err(es),
                Op::ReadBytes(a, n) => real.read_bytes(*a, *n).map(|b| Val::Bytes(b.to_vec())).map_err(es),
                Op::WriteBytes(a, v) => real.write_bytes(*a, v).map(|_| Val::Unit).map_err(es),
                Op::ReadString(a) => real.read_string(*a).map(Val::Str).map_err(es),
                Op::ReadPointer(a) => real.read_pointer(*a).map(Val::Ptr).map_err(es),
                Op::ReadLabels(a) => real.read_labels(*a).map(Val::Labels).map_err(es),
                Op::ReadLabelIdx(a, i) => real
                    .read_labels(*a)
                    .map(|l| Val::Str(l.and_then(|b| b.get(*i).cloned())))
                    .map_err(es),
                Op::ReadCString(a) => real.read_c_string(*a).map(Val::Str).map_err(es),
                Op::WriteString(a, v) => real.write_string(*a, v.as_deref()).map(|_| Val::Unit).map_err(es),
                Op::WritePointer(a, v) => real.write_pointer(*a, *v).map(|_| Val::Unit).map_err(es),
                Op::WriteLabel(a, l) => real.write_label(*a, l).map(|_| Val::Unit).map_err(es),
                Op::WriteLabels(a, l) => real.write_labels(*a, l.clone()).map(|_| Val::Unit).map_err(es),
                Op::DeleteString(a) => real.delete_string(*a).map(|_| Val::Unit).map_err(es),
                Op::DeletePointer(a) => real.delete_pointer(*a).map(|_| Val::Unit).map_err(es),
                Op::DeleteLabels(a) => real.delete_labels(*a).map(|_| Val::Unit).map_err(es),
                Op::DeleteLabel(a, i) => real.delete_label(*a, *i).map(|_| Val::Unit).map_err(es),
            }
        } else {
            let is_read = matches!(
                op,
                Op::Read(..) | Op::ReadBytes(..) | Op::ReadString(_) | Op::ReadPointer(_) | Op::ReadLabels(_) | Op::ReadLabelIdx(..) | Op::ReadCString(_)
            );
            if is_read {
                // three ways of putting the cursor at `addr`: constructor, seek, seek + skip
                let mut r = match place {
                    0 => BinArchiveReader::new(real, addr),
                    1 => {
                        let mut r = BinArchiveReader::new(real, size / 2);
                        r.seek(addr);
                        r
                    }
                    _ => {
                        let mut r = BinArchiveReader::new(real, 7);
                        r.seek(addr / 2);
                        r.skip(addr - addr / 2);
                        r
                    }
                };
                if r.tell() != addr || r.archive().size() != size {
                    return Err(format!("PLACEMENT: reader cursor {} (wanted {}), archive size {}", r.tell(), addr, r.archive().size()));
                }
                let out = match op {
                    Op::Read(acc, _) => match acc {
                        Acc::U8 => r.read_u8().map(|v| Val::Bits(v as u32)).map_err(es),
                        Acc::I8 => r.read_i8().map(|v| Val::Bits(v as u8 as u32)).map_err(es),
                        Acc::U16 => r.read_u16().map(|v| Val::Bits(v as u32)).map_err(es),
                        Acc::I16 => r.read_i16().map(|v| Val::Bits(v as u16 as u32)).map_err(es),
                        Acc::U32 => r.read_u32().map(Val::Bits).map_err(es),
                        Acc::I32 => r.read_i32().map(|v| Val::Bits(v as u32)).map_err(es),
                        Acc::F32 => r.read_f32().map(|v| Val::Bits(v.to_bits())).map_err(es),
                    },
                    Op::ReadBytes(_, n) => r.read_bytes(*n).map(Val::Bytes).map_err(es),
                    Op::ReadString(_) => r.read_string().map(Val::Str).map_err(es),
                    Op::ReadPointer(_) => r.read_pointer().map(Val::Ptr).map_err(es),
                    Op::ReadLabels(_) => r.read_labels().map(Val::Labels).map_err(es),
                    Op::ReadLabelIdx(_, i) => r.read_label(*i).map(Val::Str).map_err(es),
                    Op::ReadCString(_) => r.read_c_string().map(Val::Str).map_err(es),
                    _ => unreachable!(),
                };
                tell_after = Some(r.tell());
                out
            } else {
                let mut w = match place {
                    0 => BinArchiveWriter::new(real, addr),
                    1 => {
                        let mut w = BinArchiveWriter::new(real, size / 2);
                        w.seek(addr);
                        w
                    }
                    _ => {
                        let mut w = BinArchiveWriter::new(real, 7);
                        w.seek(addr / 2);
                        w.skip(addr - addr / 2);
                        w
                    }
                };
                if w.tell() != addr || w.length() != size || w.size() != size {
                    return Err(format!("PLACEMENT: writer cursor {} (wanted {}), length {} size {}", w.tell(), addr, w.length(), w.size()));
                }
                let out = match op {
                    Op::Write(acc, _, v) => match acc {
                        Acc::U8 => w.write_u8(*v as u8),
                        Acc::I8 => w.write_i8(*v as u8 as i8),
                        Acc::U16 => w.write_u16(*v as u16),
                        Acc::I16 => w.write_i16(*v as u16 as i16),
                        Acc::U32 => w.write_u32(*v),
                        Acc::I32 => w.write_i32(*v as i32),
                        Acc::F32 => w.write_f32(f32::from_bits(*v)),
                    }
                    .map(|_| Val::Unit)
                    .map_err(es),
                    Op::WriteBytes(_, v) => w.write_bytes(v).map(|_| Val::Unit).map_err(es),
                    Op::WriteString(_, v) => w.write_string(v.as_deref()).map(|_| Val::Unit).map_err(es),
                    Op::WritePointer(_, v) => w.write_pointer(*v).map(|_| Val::Unit).map_err(es),
                    Op::WriteLabel(_, l) => w.write_label(l).map(|_| Val::Unit).map_err(es),
                    _ => Err("no stream form".to_string()),
                };
                tell_after = Some(w.tell());
                out
            }
        }
    });
    let res = match res {
        None => return false, // panic already reported
        Some(r) => r,
    };
    if let Err(e) = &res {
        if e.starts_with("PLACEMENT:") {
            c.fail("cursor", "cursor_placement", format!("{} on archive of size {}: {}", what, size, e));
            return false;
        }
    }
    let cls = addr_class(addr, width.max(1), size);
    let opname = match op {
        Op::Read(a, _) => format!("read_{:?}", a),
        Op::Write(a, _, _) => format!("write_{:?}", a),
        other => format!("{:?}", other).split('(').next().unwrap_or("?").to_string(),
    };
    c.nontrivial(fnv(format!("{}|{}|{}|{}|{}|{}", opname, stream, be, size.min(300), cls, res.is_ok()).as_bytes()));
    c.outcome(if res.is_ok() { "ok" } else { "err" });
    let ctx = |m: &str| format!("{} on {} archive of size {}: {}", what, if be { "BE" } else { "LE" }, size, m);
    let mut ok = true;
    // success / failure contract
    match (must, &res) {
        (Some(true), Err(e)) => {
            c.fail("bounds", &format!("wrong_reject:{}", opname), ctx(&format!("whole range is inside the data, expected success, got Err({})", e)));
            ok = false;
        }
        (Some(false), Ok(v)) => {
            c.fail("bounds", &format!("wrong_accept:{}", opname), ctx(&format!("range is not inside the data, expected an error, got Ok({:?})", v)));
            ok = false;
        }
        (Some(false), Err(e)) => {
            // the refusal of a value access is the out-of-bounds error, not some other kind
            if matches!(op, Op::Read(..) | Op::Write(..)) {
                if e.starts_with("Out of bounds address") {
                    c.outcome("refused_with_the_out_of_bounds_error");
                } else {
                    c.fail("bounds", &format!("wrong_error_kind:{}", opname), ctx(&format!("range is not inside the data: refused, but with Err({}) instead of the out-of-bounds error", e)));
                    ok = false;
                }
            }
        }
        _ => {}
    }
    // value
    if let (Ok(v), Some(e)) = (&res, &exp_val) {
        if v != e && !(lenient_err && false) {
            c.fail("value", &format!("value:{}", opname), ctx(&format!("expected {:?} got {:?}", e, v)));
            ok = false;
        }
    }
    // state after the call
    let after = match archive::observe_hook(real, be) {
        Ok(b) => b,
        Err(e) => {
            c.fail("state", "state", ctx(&format!("inconsistent state after the call: {}", e)));
            return false;
        }
    };
    if res.is_err() {
        if let Some(d) = archive::diff(&before, &after) {
            c.fail("failed_call_changed_state", &format!("err_changed_state:{}", opname), ctx(&format!("call returned Err but changed the archive: {}", d)));
            ok = false;
        }
        // model must not have changed either (only possible when `must` was None)
        *model = before.clone();
        model.be = be;
    } else {
        if must.is_none() && exp_val.is_none() {
            // not asserted beyond "no panic"; whatever happened must at least not touch raw bytes for
            // empty ranges / annotation calls
            if let Op::ReadBytes(..) | Op::WriteBytes(..) | Op::DeleteLabel(..) = op {
                if before.data != after.data {
                    c.fail("locality", &format!("locality:{}", opname), ctx("raw bytes changed by a call with an empty range / annotation-only call"));
                    ok = false;
                }
                *model = after.clone();
            }
        } else if must.is_none() {
            // lenient out-of-range annotation read that returned Ok: nothing may change
            if let Some(d) = archive::diff(&before, &after) {
                c.fail("locality", &format!("locality:{}", opname), ctx(&format!("read changed the archive: {}", d)));
                ok = false;
            }
        } else if let Some(d) = archive::diff(model, &after) {
            c.fail("locality", &format!("locality:{}", opname), ctx(&format!("state after the call differs from the model: {} (before: {})", d, before.describe())));
            ok = false;
            *model = after.clone();
        }
    }
    // cursor
    if stream {
        // The cursor after a FAILED stream access is deliberately not asserted: the statement only
        // fixes the advance of successful accesses, and the unchanged library itself leaves the
        // cursor advanced after a failed stream read_bytes (it reads byte by byte). Recorded only.
        if let (Err(_), Some(t)) = (&res, tell_after) {
            if t != addr {
                c.outcome("cursor_moved_by_failed_stream_access(not asserted)");
            }
        }
        if let (Ok(_), Some(t)) = (&res, tell_after) {
            let expect = addr.wrapping_add(width);
            if t != expect {
                c.fail("cursor", &format!("cursor:{}", opname), ctx(&format!("cursor moved from {} to {}, expected {}", addr, t, expect)));
                ok = false;
            }
        }
    }
    ok
}

pub const VALUES: [u32; 13] = [
    0x0000_8000, // i16::MIN in the low half
    0xFFFF_8000,
    0x8000_7FFF,
    0,
    0xFFFF_FFFF,
    0x0102_0304,
    0x8000_0000,
    0x7FC0_0001, // quiet NaN with payload
    0x7F80_0001, // signalling NaN
    0xFF80_0000, // -inf
    0x0000_0001, // subnormal
    0x8000_0000 | 0x0040_0000,
    0xA5C3_9617,
];

pub fn huge_addrs() -> Vec<usize> {
    let mut v = Vec::new();
    for base in [1usize << 31, 1usize << 32, isize::MAX as usize] {
        for d in [-4i64, -1, 0, 1, 4] {
            v.push((base as i128 + d as i128) as usize);
        }
    }
    for k in 0..=8usize {
        v.push(usize::MAX - k);
    }
    v
}

fn fresh(size: usize, be: bool, rng: &mut Rng, annotate: bool) -> (BinArchive, RefArchive) {
    let mut m = RefArchive::new(be);
    m.data = rng.bytes(size);
    if annotate {
        let mut cell = 0;
        while cell + 4 <= size {
            match rng.below(6) {
                0 => {
                    m.text.insert(cell, gen_sjis(rng, 4));
                }
                1 => {
                    m.ptrs.insert(cell, rng.range(0, size));
                }
                _ => {}
            }
            cell += 4;
        }
        for _ in 0..rng.range(0, 3) {
            m.labels.entry(rng.range(0, size)).or_default().push(gen_ident(rng, 4));
        }
    }
    let a = match archive::build_real_plain(&m) {
        Ok(a) => a,
        Err(e) => {
            // every call of the build is in range (strings / pointers on whole cells, labels at
            // addresses <= size): a rejection is a wrong_reject of C04, reported by the caller
            BUILD_ERR.with(|b| *b.borrow_mut() = Some(format!("building a {}-byte archive through in-range calls failed: {}; content={}", size, e, m.describe())));
            let mut plain = RefArchive::new(be);
            plain.data = m.data.clone();
            m = plain;
            archive::build_real_plain(&m).expect("plain build")
        }
    };
    (a, m)
}

thread_local! {
    static BUILD_ERR: std::cell::RefCell<Option<String>> = std::cell::RefCell::new(None);
}

/// report (once per occurrence) a rejected in-range build call recorded by `fresh`
fn report_build_err(c: &mut Case) {
    if let Some(e) = BUILD_ERR.with(|b| b.borrow_mut().take()) {
        c.fail("bounds", "wrong_reject:build", e);
    }
}

fn grid_case(c: &mut Case, size: usize, be: bool) {
    let mut rng = Rng::new(size as u64 * 2 + be as u64); // seed-independent: this part is exhaustive
    let (mut real, mut model) = fresh(size, be, &mut rng, true);
    report_build_err(c);
    let mut addrs: Vec<usize> = if cfg!(miri) {
        let mut a = vec![0, 1, size.saturating_sub(1), size, size + 1, size + 4];
        a.sort();
        a.dedup();
        a
    } else if size <= 300 {
        (0..=size + 8).collect()
    } else {
        (0..=8).chain(size - 8..=size + 8).collect()
    };
    if cfg!(miri) {
        addrs.extend([usize::MAX, usize::MAX - 3, 1usize << 32]);
    } else {
        addrs.extend(huge_addrs());
    }
    let mut n = 0u64;
    for &a in &addrs {
        for stream in [false, true] {
            for acc in ACCS {
                exec(c, &mut real, &mut model, &Op::Read(acc, a), stream);
                let v = VALUES[(a.wrapping_add(acc.width())) % VALUES.len()];
                exec(c, &mut real, &mut model, &Op::Write(acc, a, v), stream);
                // read back: the matching read returns the value unchanged
                exec(c, &mut real, &mut model, &Op::Read(acc, a), stream);
                n += 3;
            }
            for op in [
                Op::ReadString(a),
                Op::ReadPointer(a),
                Op::ReadLabels(a),
                Op::ReadLabelIdx(a, 0),
                Op::ReadLabelIdx(a, 3),
                Op::ReadCString(a),
                Op::WriteString(a, Some("s".to_string())),
                Op::ReadString(a),
                Op::WriteString(a, None),
                Op::WritePointer(a, Some(a % 7)),
                Op::ReadPointer(a),
                Op::WritePointer(a, None),
                Op::WriteLabel(a, "L".to_string()),
            ] {
                exec(c, &mut real, &mut model, &op, stream);
                n += 1;
            }
            if !stream {
                for op in [
                    Op::WriteLabels(a, vec!["a".to_string(), "b".to_string()]),
                    Op::DeleteLabel(a, 5),
                    Op::DeleteLabel(a, 0),
                    Op::DeleteLabels(a),
                    Op::DeleteString(a),
                    Op::DeletePointer(a),
                ] {
                    exec(c, &mut real, &mut model, &op, false);
                    n += 1;
                }
            }
        }
        // read_bytes / write_bytes length grid
        let mut lens: Vec<usize> = if cfg!(miri) {
            vec![0, 1, size, size + 1]
        } else if size <= 16 {
            (0..=size + 4).collect()
        } else {
            let d = size.saturating_sub(a.min(size));
            let mut l: Vec<usize> = (0..=5).collect();
            l.extend(d.saturating_sub(2)..=d + 2);
            l
        };
        if cfg!(miri) {
            lens.extend([usize::MAX, usize::MAX - 3]);
        } else {
            lens.extend(huge_addrs());
        }
        for &len in &lens {
            for stream in [false, true] {
                if stream && len > 1 << 20 && a < size {
                    // reader.read_bytes loops byte by byte until the first error; fine for small archives
                }
                exec(c, &mut real, &mut model, &Op::ReadBytes(a, len), stream);
                n += 1;
            }
            if len <= size + 4 {
                let payload: Vec<u8> = (0..len).map(|i| (i as u8).wrapping_mul(37).wrapping_add(a as u8)).collect();
                for stream in [false, true] {
                    exec(c, &mut real, &mut model, &Op::WriteBytes(a, payload.clone()), stream);
                    n += 1;
                }
            }
        }
    }
    c.eval(n);
    c.sit("grid");
    if size == 0 {
        c.sit("empty_archive");
    }
    c.sample(if be { "grid_be" } else { "grid_le" }, || {
        J::obj(vec![
            ("archive_size", J::U(size as u64)),
            ("endian", J::s(if be { "BE" } else { "LE" })),
            ("addresses_tried", J::U(addrs.len() as u64)),
            ("calls", J::U(n)),
            ("example_addresses", J::s(format!("{:?}", &addrs[addrs.len().saturating_sub(6)..]))),
            ("observed", J::s("every call: Ok/Err as the bounds rule says, value/layout per endianness, failed calls left the full state unchanged, stream cursor advanced by the width")),
        ])
    });
}

fn gen_op(rng: &mut Rng, m: &RefArchive) -> (Op, bool) {
    let size = m.size();
    let a = match rng.below(10) {
        0 => size,
        1 => size + rng.range(1, 8),
        2 => *rng.pick(&huge_addrs()),
        3 => size.saturating_sub(rng.range(1, 4)),
        _ => rng.range(0, size),
    };
    let a4 = if rng.chance(3, 4) { a & !3 } else { a };
    let acc = *rng.pick(&ACCS);
    let v = if rng.chance(1, 2) { *rng.pick(&VALUES) } else { rng.u32() };
    let op = match rng.below(20) {
        0 | 1 | 2 => Op::Read(acc, a),
        3 | 4 | 5 => Op::Write(acc, a, v),
        6 => Op::ReadBytes(a, if rng.chance(1, 8) { *rng.pick(&huge_addrs()) } else { rng.range(0, size + 2) }),
        7 | 8 => {
            let n = rng.range(0, 12);
            Op::WriteBytes(a, rng.bytes(n))
        }
        9 => Op::ReadString(a4),
        10 => Op::ReadPointer(a4),
        11 => Op::ReadLabels(a4),
        12 => Op::WriteString(a4, if rng.chance(1, 5) { None } else { Some(gen_sjis(rng, 5)) }),
        13 => Op::WritePointer(a4, if rng.chance(1, 5) { None } else { Some(rng.range(0, size)) }),
        // half of the label names come from a pool of three, so that equal names meet on one cell
        14 => Op::WriteLabel(a, if rng.bool() { rng.pick(&["L", "Dup", ""]).to_string() } else { gen_ident(rng, 4) }),
        15 => Op::ReadLabelIdx(a4, rng.below(3)),
        16 => Op::ReadCString(a4),
        17 => Op::DeleteLabel(a4, rng.below(3)),
        18 => Op::WriteLabels(a, (0..rng.below(3)).map(|_| gen_ident(rng, 3)).collect()),
        _ => match rng.below(3) {
            0 => Op::DeleteString(a4),
            1 => Op::DeletePointer(a4),
            _ => Op::DeleteLabels(a4),
        },
    };
    let streamable = !matches!(op, Op::WriteLabels(..) | Op::DeleteString(_) | Op::DeletePointer(_) | Op::DeleteLabels(_) | Op::DeleteLabel(..));
    (op, streamable && rng.bool())
}

pub const REQUIRED: &[&str] = &["grid", "empty_archive", "writer_write_bytes_past_end", "read_bytes_len_overflow", "history", "long_lived_writer_sequence"];

pub fn run(cx: &mut Ctx) {
    cx.require(REQUIRED);
    cx.rule = "exhaustive boundary grid: archive sizes {0..=9,16,255,256,4096} x both endiannesses x every positional and stream accessor x addresses {0..=size+8} u {2^31,2^32,isize::MAX (+-4), usize::MAX-8..=usize::MAX} x read_bytes/write_bytes lengths {0..=size+4} u the same huge set; plus random histories mixing positional and stream calls. Every call is compared with the reference model (bounds rule in u128, endian layout, value read-back by bits) and the full archive state (verif_snapshot hook) is compared before/after. non-trivial = distinct (accessor, stream?, endian, size, address class, outcome) tuples".into();
    let sizes: Vec<usize> = if cfg!(miri) { vec![0, 4, 5] } else { (0..=9).chain([16, 255, 256, 4096]).collect() };
    for &size in &sizes {
        for be in [false, true] {
            cx.case("grid", |c| grid_case(c, size, be));
        }
    }
    // directed: the two shapes found while reading the code
    cx.case("writer_write_bytes_past_end", |c| {
        c.sit("writer_write_bytes_past_end");
        for be in [false, true] {
            let mut rng = Rng::new(7);
            let (mut real, mut model) = fresh(8, be, &mut rng, false);
            report_build_err(c);
            exec(c, &mut real, &mut model, &Op::WriteBytes(6, vec![1, 2, 3, 4]), true);
            exec(c, &mut real, &mut model, &Op::WriteBytes(6, vec![1, 2, 3, 4]), false);
            exec(c, &mut real, &mut model, &Op::WriteBytes(6, vec![9, 8]), true);
        }
    });
    cx.case("read_bytes_len_overflow", |c| {
        c.sit("read_bytes_len_overflow");
        for be in [false, true] {
            let mut rng = Rng::new(9);
            let (mut real, mut model) = fresh(8, be, &mut rng, false);
            report_build_err(c);
            for a in [0usize, 1, 4, 7] {
                for n in [usize::MAX, usize::MAX - 1, usize::MAX - 7, (isize::MAX as usize) + 1] {
                    exec(c, &mut real, &mut model, &Op::ReadBytes(a, n), false);
                }
            }
        }
    });
    let n = cx.a.n(60_000, 1_000_000);
    let quick = cx.a.quick();
    for _ in 0..n {
        cx.case("history", |c| {
            c.sit("history");
            let mut rng = c.rng.clone();
            let size = match rng.below(6) {
                0 => rng.range(0, 9),
                1 => 255,
                2 => 256,
                _ => rng.range(0, if quick { 64 } else { 512 }),
            };
            let be = rng.bool();
            let (mut real, mut model) = fresh(size, be, &mut rng, true);
            report_build_err(c);
            let len = if cfg!(miri) { rng.range(5, 20) } else { rng.range(10, 80) };
            let mut hist = Vec::new();
            for _ in 0..len {
                if rng.chance(1, 15) {
                    // several steps on one long-lived writer (stream accesses must keep behaving like
                    // the positional calls at the cursor even after the writer changed the size)
                    let steps = super::c03::gen_writer_seq(&mut rng, &model);
                    if !super::c03::exec_writer_seq(c, &mut real, &mut model, &steps) {
                        break;
                    }
                    continue;
                }
                let (op, stream) = gen_op(&mut rng, &model);
                if hist.len() < 12 {
                    hist.push(format!("{}{:?}", if stream { "stream:" } else { "" }, op));
                }
                if !exec(c, &mut real, &mut model, &op, stream) {
                    break;
                }
            }
            c.eval(len as u64);
            c.sample("history", || {
                J::obj(vec![
                    ("archive_size", J::U(size as u64)),
                    ("endian", J::s(if be { "BE" } else { "LE" })),
                    ("ops_total", J::U(len as u64)),
                    ("first_ops", J::A(hist.iter().map(J::s).collect())),
                ])
            });
        });
    }
}
