//! C05 — archive-family parsers are total on arbitrary bytes (no panic, abort, runaway allocation;
//! over-declaring headers are rejected; accepted input can be re-serialized).
use super::{c06, c15, c17, c18};
use crate::ctx::{Case, Ctx};
use crate::json::{hex_short, J};
use crate::monitor;
use crate::prng::{fnv, Rng};
use crate::refs::archive::{self, GenOpts};
use crate::refs::containers::{arc_build, pack_build, ArcPlan, PackPlan};
use crate::refs::image::{self, get32, set32};
use mila::{arc, fe9_arc, ASetFile, AssetBinary, BinArchive, Endian, TextArchive, TextArchiveFormat};

pub const HARD_CAP: usize = 256 << 20;

/// Largest single allocation request tolerated for an input of `len` bytes: a fixed 128 KiB plus a
/// constant multiple of the input. The multiple is 64 for the byte-oriented parsers; the asset
/// binary reader legitimately turns a 4-byte record into an in-memory spec of about 900 bytes held
/// in a doubling vector, so its constant is 512.
fn soft_bound(entry: &str, len: usize) -> usize {
    (128 << 10) + if entry.starts_with("asset") { 512 } else { 64 } * len
}

fn err_class(e: &str) -> String {
    // first word of the Debug representation = the error variant
    e.split(|ch: char| !ch.is_alphanumeric() && ch != '_').next().unwrap_or("?").to_string()
}

struct Probe<'a, 'b> {
    c: &'a mut Case<'b>,
    input: &'a [u8],
    what: &'a str,
}

impl<'a, 'b> Probe<'a, 'b> {
    /// run one library call under the panic + allocation monitors
    fn call<T>(&mut self, entry: &str, f: impl FnOnce() -> Result<T, String>) -> Option<Result<T, String>> {
        if self.c.verbose {
            eprintln!("[C05] {} on {} bytes [{}]: {}", entry, self.input.len(), self.what, hex_short(self.input, 160));
        }
        monitor::alloc_watch_begin(HARD_CAP);
        let t0 = monitor::cpu_now();
        let r = self.c.lib(entry, f);
        let dt = monitor::cpu_now() - t0;
        let max_req = monitor::alloc_watch_end();
        self.c.eval(1);
        self.c.stat_max("max_cpu_seconds_per_call", dt);
        let bound = soft_bound(entry, self.input.len());
        self.c.stat_max("max_alloc_request_over_bound", max_req as f64 / bound as f64);
        self.c.stat_max("max_single_alloc_request_bytes", max_req as f64);
        if self.input.len() <= 256 {
            self.c.stat_max("max_single_alloc_request_bytes_for_inputs_up_to_256_bytes", max_req as f64);
        }
        if max_req > bound {
            self.c.fail(
                "alloc_bound",
                &format!("alloc_bound:{}", entry),
                format!("{}: single allocation request of {} bytes for an input of {} bytes (bound 128 KiB + 64 x len, 512 x len for the asset reader = {}) [{}] input={}", entry, max_req, self.input.len(), bound, self.what, hex_short(self.input, 160)),
            );
        }
        if let Some(r) = &r {
            let cls = match r {
                Ok(_) => format!("{}:ok", entry),
                Err(e) => format!("{}:err:{}", entry, err_class(e)),
            };
            let new = self.c.outcome_new(&cls);
            let passed_size_check = match r {
                Ok(_) => true,
                Err(e) => !e.contains("TooSmall") && !e.contains("UnexpectedEof") && !e.contains("failed to fill"),
            };
            if new || passed_size_check {
                self.c.nontrivial(fnv(self.input) ^ fnv(entry.as_bytes()));
            }
        }
        r
    }
}

fn over_declares_bin(input: &[u8], be: bool) -> bool {
    if input.len() < 0x20 {
        return false;
    }
    let d = get32(input, 4, be).unwrap() as u64;
    let p = get32(input, 8, be).unwrap() as u64;
    let l = get32(input, 12, be).unwrap() as u64;
    0x20 + d + 4 * p + 8 * l > input.len() as u64
}

/// Does the buffer, read as a bin archive, reference a string or label name that starts inside the
/// buffer and has no terminator before the end of the buffer? (Such an entry "declares more than
/// the buffer holds": the parser has to reject it, and must not go looking for the NUL elsewhere.)
fn references_unterminated_string(input: &[u8], be: bool) -> bool {
    if input.len() < 0x20 {
        return false;
    }
    let d = get32(input, 4, be).unwrap() as usize;
    let p = get32(input, 8, be).unwrap() as usize;
    let l = get32(input, 12, be).unwrap() as usize;
    let (ptab, ltab, text) = match (|| {
        let ptab = 0x20usize.checked_add(d)?;
        let ltab = ptab.checked_add(p.checked_mul(4)?)?;
        let text = ltab.checked_add(l.checked_mul(8)?)?;
        if text > input.len() {
            None
        } else {
            Some((ptab, ltab, text))
        }
    })() {
        Some(x) => x,
        None => return false,
    };
    let open_ended = |at: usize| at < input.len() && !input[at..].contains(&0);
    for i in 0..p {
        let cell = get32(input, ptab + 4 * i, be).unwrap() as usize;
        if cell % 4 != 0 || cell + 4 > d {
            return false; // malformed in another way: no claim
        }
        let v = get32(input, 0x20 + cell, be).unwrap() as usize;
        if v > d {
            if let Some(at) = 0x20usize.checked_add(v) {
                if open_ended(at) {
                    return true;
                }
            }
        }
    }
    for i in 0..l {
        let addr = get32(input, ltab + 8 * i, be).unwrap() as usize;
        if addr > d {
            return false;
        }
        let off = get32(input, ltab + 8 * i + 4, be).unwrap() as usize;
        if let Some(at) = text.checked_add(off) {
            if open_ended(at) {
                return true;
            }
        }
    }
    false
}

/// The same for a GameCube/Wii pack: an entry whose name starts inside the buffer and runs to its end.
fn pack_has_unterminated_name(input: &[u8]) -> bool {
    if input.len() < 8 || &input[..4] != b"pack" {
        return false;
    }
    let count = u16::from_be_bytes([input[4], input[5]]) as usize;
    if 8 + 16 * count > input.len() {
        return false;
    }
    for i in 0..count {
        let e = 8 + 16 * i;
        let name = u32::from_be_bytes([input[e + 4], input[e + 5], input[e + 6], input[e + 7]]) as usize;
        if name < input.len() && !input[name..].contains(&0) {
            return true;
        }
    }
    false
}

/// Run every archive-family entry point on `input`.
pub fn probe(c: &mut Case, input: &[u8], what: &str) {
    // every parser sees a private exact-size copy at a (usually) misaligned address
    let tight_copy = crate::monitor::tight(input);
    let input: &[u8] = &tight_copy;
    let mut p = Probe { c, input, what };
    for be in [false, true] {
        let en = if be { Endian::Big } else { Endian::Little };
        let tag = if be { "bin_be" } else { "bin_le" };
        if references_unterminated_string(input, be) {
            p.c.sit("bin_image_referencing_an_unterminated_string");
        }
        let r = p.call(&format!("{}:from_bytes", tag), || BinArchive::from_bytes(input, en).map_err(|e| format!("{:?}", e)));
        if let Some(Ok(a)) = r {
            if over_declares_bin(input, be) {
                p.c.fail(
                    "over_declaring_header_accepted",
                    &format!("over_declared:{}", tag),
                    format!("BinArchive::from_bytes accepted a {} header that declares more data/pointers/labels than the {} bytes present [{}] input={}", if be { "BE" } else { "LE" }, input.len(), what, hex_short(input, 160)),
                );
            }
            if references_unterminated_string(input, be) {
                p.c.fail(
                    "over_declaring_header_accepted",
                    &format!("unterminated_string_accepted:{}", tag),
                    format!("BinArchive::from_bytes accepted a {} image in which a referenced string / label name runs to the end of the {}-byte buffer without a terminator [{}] input={}", if be { "BE" } else { "LE" }, input.len(), what, hex_short(input, 160)),
                );
            }
            let _ = p.call(&format!("{}:serialize", tag), || a.serialize().map(|_| ()).map_err(|e| format!("{:?}", e)));
            if !be {
                if let Some(Ok(f)) = p.call("aset:from_archive", || ASetFile::from_archive(&a).map_err(|e| format!("{:?}", e))) {
                    let _ = p.call("aset:serialize", || f.serialize().map(|_| ()).map_err(|e| format!("{:?}", e)));
                }
                if let Some(Ok(f)) = p.call("asset:from_archive", || AssetBinary::from_archive(&a).map_err(|e| format!("{:?}", e))) {
                    let _ = p.call("asset:serialize", || f.serialize().map(|_| ()).map_err(|e| format!("{:?}", e)));
                }
            }
        }
        for unicode in [false, true] {
            if cfg!(miri) && unicode {
                continue; // encoding_rs 0.8.24 UTF-16 decode is not Miri-clean (DESIGN §2.3)
            }
            let fmt = if unicode { TextArchiveFormat::Unicode } else { TextArchiveFormat::ShiftJIS };
            let tag = format!("text_{}_{}", if unicode { "utf16" } else { "sjis" }, if be { "be" } else { "le" });
            let r = p.call(&format!("{}:from_bytes", tag), || TextArchive::from_bytes(input, fmt, en).map_err(|e| format!("{:?}", e)));
            // strings of a text archive are read one after the other from the data region, each followed
            // by padding to the next cell: if the region holds no zero byte at all, not even the first
            // string (the title in the UTF-16 format) ends inside it
            let data_open_ended = input.len() >= 0x20 && {
                let d = get32(input, 4, be).unwrap() as usize;
                d > 0 && 0x20 + d <= input.len() && !input[0x20..0x20 + d].contains(&0)
            };
            if data_open_ended {
                p.c.sit("text_archive_data_ending_inside_a_string");
            }
            if let Some(Ok(t)) = r {
                if data_open_ended {
                    p.c.fail("over_declaring_header_accepted", &format!("unterminated_string_accepted:{}", tag), format!("TextArchive::from_bytes accepted an archive whose data region ends inside a string [{}] input={}", what, hex_short(input, 160)));
                }
                if over_declares_bin(input, be) {
                    p.c.fail("over_declaring_header_accepted", &format!("over_declared:{}", tag), format!("TextArchive::from_bytes accepted an over-declaring header [{}] input={}", what, hex_short(input, 160)));
                }
                let _ = p.call(&format!("{}:serialize", tag), || t.serialize().map(|_| ()).map_err(|e| format!("{:?}", e)));
            }
        }
    }
    if let Some(Ok(m)) = p.call("arc:from_bytes", || arc::from_bytes(input).map_err(|e| format!("{:?}", e))) {
        if over_declares_bin(input, false) {
            p.c.fail("over_declaring_header_accepted", "over_declared:arc", format!("arc::from_bytes accepted an over-declaring header [{}] input={}", what, hex_short(input, 160)));
        }
        for (n, b) in &m {
            if b.len() > input.len() {
                p.c.fail("over_declaring_header_accepted", "over_declared:arc_entry", format!("arc::from_bytes returned {} bytes for {:?} from a {}-byte buffer", b.len(), n, input.len()));
            }
        }
    }
    if pack_has_unterminated_name(input) {
        p.c.sit("pack_with_an_unterminated_name");
    }
    if let Some(Ok(m)) = p.call("pack:parse", || fe9_arc::parse(input).map_err(|e| format!("{:?}", e))) {
        if pack_has_unterminated_name(input) {
            p.c.fail("over_declaring_header_accepted", "unterminated_string_accepted:pack", format!("fe9_arc::parse accepted a pack in which an entry name runs to the end of the {}-byte buffer without a terminator [{}] input={}", input.len(), what, hex_short(input, 160)));
        }
        // oracle: the entry table and every entry must lie inside the buffer
        if input.len() >= 8 {
            let count = u16::from_be_bytes([input[4], input[5]]) as usize;
            if 8 + 16 * count > input.len() {
                p.c.fail("over_declaring_header_accepted", "over_declared:pack_count", format!("fe9_arc::parse accepted a header declaring {} entries ({} bytes of table) in a {}-byte buffer [{}] input={}", count, 16 * count, input.len(), what, hex_short(input, 64)));
            }
            for i in 0..count {
                let e = 8 + 16 * i;
                if e + 16 <= input.len() {
                    let off = u32::from_be_bytes([input[e + 8], input[e + 9], input[e + 10], input[e + 11]]) as u64;
                    let size = u32::from_be_bytes([input[e + 12], input[e + 13], input[e + 14], input[e + 15]]) as u64;
                    if off + size > input.len() as u64 {
                        p.c.fail("over_declaring_header_accepted", "over_declared:pack", format!("fe9_arc::parse accepted entry #{} with offset {:#x} + size {:#x} beyond the {} bytes present [{}] input={}", i, off, size, input.len(), what, hex_short(input, 160)));
                        break;
                    }
                }
            }
        }
        let _ = p.call("pack:serialize", || fe9_arc::serialize(&m).map(|_| ()).map_err(|e| format!("{:?}", e)));
    }
}

// ------------------------------------------------------------------------------------------ seeds

#[derive(Clone)]
pub struct Seed {
    pub kind: &'static str,
    pub bytes: Vec<u8>,
    pub be: bool,
}

fn golden(repo: &std::path::Path) -> Vec<Seed> {
    let mut v = Vec::new();
    if let Ok(rd) = std::fs::read_dir(repo.join("resources/test")) {
        let mut names: Vec<_> = rd.filter_map(|e| e.ok()).map(|e| e.path()).filter(|p| p.is_file()).collect();
        names.sort();
        for p in names {
            if let Ok(b) = std::fs::read(&p) {
                if b.len() <= 64 << 10 {
                    let be = p.file_name().map(|n| n.to_string_lossy().contains("Legacy")).unwrap_or(false);
                    let kind = if b.starts_with(b"pack") { "golden_pack" } else { "golden" };
                    v.push(Seed { kind, bytes: b, be });
                }
            }
        }
    }
    v
}

pub fn gen_seed(rng: &mut Rng, miri: bool) -> Seed {
    match rng.below(7) {
        0 | 1 => {
            let o = GenOpts { max_cells: if miri { 4 } else { 24 }, allow_unaligned_len: true, cstrings: false, max_labels: 8, string_len: 6 };
            let m = archive::gen_content(rng, &o);
            let be = m.be;
            let bytes = if rng.bool() { image::write_canonical(&m, None) } else { image::write_variant(&m, rng).0 };
            Seed { kind: "bin", bytes, be }
        }
        2 => {
            let mut content = c06::gen(rng, true);
            content.entries.truncate(if miri { 2 } else { 8 });
            // reference-built text archive image: data = title + messages, labels = keys
            let mut a = archive::RefArchive::new(content.be);
            let mut data: Vec<u8> = Vec::new();
            let push_sjis = |d: &mut Vec<u8>, s: &str| {
                d.extend(crate::refs::strings::sjis_encode(s).unwrap_or_default());
                d.push(0);
                while d.len() % 4 != 0 {
                    d.push(0);
                }
            };
            if content.unicode {
                push_sjis(&mut data, if crate::refs::strings::sjis_ok(&content.title) { &content.title } else { "T" });
            }
            for (k, v) in &content.entries {
                a.labels.entry(data.len()).or_default().push(if crate::refs::strings::sjis_ok(k) { k.clone() } else { format!("K{}", data.len()) });
                if content.unicode {
                    for u in v.encode_utf16() {
                        data.extend_from_slice(&u.to_le_bytes());
                    }
                    data.extend_from_slice(&[0, 0]);
                    while data.len() % 4 != 0 {
                        data.push(0);
                    }
                } else {
                    push_sjis(&mut data, if crate::refs::strings::sjis_ok(v) { v } else { "x" });
                }
            }
            a.data = data;
            Seed { kind: "text", bytes: image::write_canonical(&a, None), be: content.be }
        }
        3 => {
            let files = c15::gen_files(rng, if miri { 2 } else { 6 }, 80);
            let plan = PackPlan { no_tail_padding: rng.chance(1, 4), names_after_bodies: rng.bool(), reverse_bodies: rng.bool(), extra_padding: rng.bool(), shared_name_storage: false };
            Seed { kind: "pack", bytes: pack_build(&files, &plan, rng), be: true }
        }
        4 => {
            let mut files = c15::gen_files(rng, if miri { 2 } else { 5 }, 60);
            files.retain(|(n, _)| !n.is_empty());
            let plan = ArcPlan { padded_header: rng.bool(), decoy_labels: rng.bool(), ..Default::default() };
            Seed { kind: "arc", bytes: arc_build(&files, &plan, rng), be: false }
        }
        5 => {
            let mut a = c17::gen(rng, true);
            a.sets.truncate(2);
            let mut f = ASetFile::new(a.meta.clone());
            f.anim_clip_table = a.clips.clone();
            f.sets = a.sets.clone();
            let bytes = f.serialize().unwrap_or_default();
            Seed { kind: "aset", bytes, be: false }
        }
        _ => {
            let mut b = AssetBinary::new();
            b.flags = rng.u32();
            for _ in 0..rng.range(0, 3) {
                b.specs.push(c18::gen_spec(rng));
            }
            Seed { kind: "asset", bytes: b.serialize().unwrap_or_default(), be: false }
        }
    }
}

fn boundary_values(len: usize, data: usize) -> Vec<u32> {
    let l = len as u32;
    let d = data as u32;
    let mut v = vec![
        0, 1, 3, 4, 7, 8,
        l.wrapping_sub(1), l, l.wrapping_add(1),
        d.wrapping_sub(4), d, d.wrapping_add(1),
        l.wrapping_sub(0x20), l.wrapping_sub(0x21), l.wrapping_sub(0x1F),
        0x00FF_FFFF, 0x0100_0000, 0x7FFF_FFFF, 0x8000_0000, 0xFFFF_FFFC, 0xFFFF_FFFF, 0x4000_0000, 0x3FFF_FFFF, 0x2000_0000, 0x1000_0000,
        0xFFFF_FFF0, 0xFFFF_FFE0,
    ];
    v.dedup();
    v
}

/// word offsets worth mutating in a bin-archive-family image: header words, table entries, and the
/// data cells the pointer table refers to
fn interesting_words(s: &Seed) -> Vec<usize> {
    let b = &s.bytes;
    let mut v = vec![0usize, 4, 8, 12];
    if b.len() >= 0x20 {
        let d = get32(b, 4, s.be).unwrap() as usize;
        let p = get32(b, 8, s.be).unwrap() as usize;
        let l = get32(b, 12, s.be).unwrap() as usize;
        let ptab = 0x20usize.saturating_add(d);
        for i in 0..p.min(64) {
            let at = ptab + 4 * i;
            v.push(at);
            if let Some(cell) = get32(b, at, s.be) {
                v.push(0x20 + cell as usize);
            }
        }
        let ltab = ptab.saturating_add(4 * p);
        for i in 0..l.min(64) {
            v.push(ltab + 8 * i);
            v.push(ltab + 8 * i + 4);
        }
        // the first few data words (Count words, flag words, record fields)
        for w in (0x20..(0x20 + d).min(b.len())).step_by(4).take(24) {
            v.push(w);
        }
        // and the last few data words (arc Count/Info live at the end of the data)
        let end = (0x20 + d).min(b.len());
        let mut w = end.saturating_sub(4 * 24) & !3;
        while w + 4 <= end {
            v.push(w);
            w += 4;
        }
    }
    v.retain(|at| at + 4 <= b.len());
    v.sort();
    v.dedup();
    v
}

fn pack_words(b: &[u8]) -> Vec<usize> {
    let mut v = vec![0usize, 4];
    if b.len() >= 8 {
        let count = u16::from_be_bytes([b[4], b[5]]) as usize;
        for i in 0..count.min(32) {
            for k in 0..4 {
                v.push(8 + 16 * i + 4 * k);
            }
        }
    }
    v.retain(|at| at + 4 <= b.len());
    v
}

/// All structure-aware mutants of a seed (deterministic), as (description, bytes)
fn mutants(s: &Seed) -> Vec<(String, Vec<u8>)> {
    let b = &s.bytes;
    let mut out: Vec<(String, Vec<u8>)> = Vec::new();
    let data = if b.len() >= 8 { get32(b, 4, s.be).unwrap_or(0) as usize } else { 0 };
    let vals = boundary_values(b.len(), data);
    let words = if s.kind.contains("pack") { pack_words(b) } else { interesting_words(s) };
    for at in words {
        for v in &vals {
            for be in [s.be, !s.be] {
                let mut m = b.clone();
                set32(&mut m, at, *v, be);
                if m != *b {
                    out.push((format!("{}: word at {:#x} := {:#x} ({})", s.kind, at, v, if be { "BE" } else { "LE" }), m));
                }
            }
        }
    }
    if !s.kind.contains("pack") && b.len() >= 0x20 {
        // header sums that wrap in 32 bits to {0, data, len-0x20}
        let labels = get32(b, 12, s.be).unwrap_or(0);
        for target in [0u32, data as u32, (b.len() as u32).wrapping_sub(0x20), 0x10] {
            for dsz in [0xFFFF_FFF0u32, 0xFFFF_FFFC, 0x8000_0000, 0xFFFF_0000] {
                let need = target.wrapping_sub(dsz).wrapping_sub(labels.wrapping_mul(8));
                if need % 4 == 0 {
                    let mut m = b.clone();
                    set32(&mut m, 4, dsz, s.be);
                    set32(&mut m, 8, need / 4, s.be);
                    out.push((format!("{}: header data:={:#x} pointers:={:#x} so the 32-bit sum wraps to {:#x}", s.kind, dsz, need / 4, target), m));
                }
            }
            // wrap through the label count instead
            let ptrs = get32(b, 8, s.be).unwrap_or(0);
            let need = target.wrapping_sub(data as u32).wrapping_sub(ptrs.wrapping_mul(4));
            if need % 8 == 0 {
                for hi in [0u32, 0x2000_0000, 0x4000_0000, 0x6000_0000, 0x8000_0000, 0xE000_0000] {
                    let mut m = b.clone();
                    set32(&mut m, 12, (need / 8).wrapping_add(hi), s.be);
                    out.push((format!("{}: label count := {:#x} so the 32-bit sum wraps to {:#x}", s.kind, (need / 8).wrapping_add(hi), target), m));
                }
            }
        }
        // every string terminator removed in turn (last one = unterminated last string)
        let text_from = 0x20usize.saturating_add(data).min(b.len());
        let zeros: Vec<usize> = (text_from..b.len()).filter(|i| b[*i] == 0).collect();
        for z in zeros.iter().rev().take(6) {
            let mut m = b.clone();
            m[*z] = b'A';
            out.push((format!("{}: string terminator at {:#x} removed", s.kind, z), m));
        }
        // labels renamed (aset without AnimClipNameTable, arc without Count/Info)
        for needle in [&b"AnimClipNameTable"[..], &b"Count"[..], &b"Info"[..]] {
            if let Some(pos) = b.windows(needle.len()).position(|w| w == needle) {
                let mut m = b.clone();
                m[pos] ^= 0x20;
                out.push((format!("{}: label {:?} renamed", s.kind, String::from_utf8_lossy(needle)), m));
            }
        }
    }
    if s.kind.contains("pack") {
        for bit in 0..32 {
            let mut m = b.clone();
            if m.len() >= 4 {
                m[bit / 8] ^= 1 << (bit % 8);
                out.push((format!("pack: magic bit {} flipped", bit), m));
            }
        }
        for cnt in [0u16, 1, 2, 0x00FF, 0x0100, 0x7FFF, 0xFFFF] {
            let mut m = b.clone();
            if m.len() >= 6 {
                m[4..6].copy_from_slice(&cnt.to_be_bytes());
                out.push((format!("pack: count := {:#x}", cnt), m));
            }
        }
    }
    // every strict prefix (<= 2 KiB)
    let maxp = b.len().min(2048);
    let step = if b.len() > 600 { 3 } else { 1 };
    let mut cut = 0;
    while cut < maxp {
        out.push((format!("{}: prefix of {} bytes", s.kind, cut), b[..cut].to_vec()));
        cut += if cut < 0x48 { 1 } else { step };
    }
    out
}

pub const REQUIRED: &[&str] = &[
    "wrapping_header_sum",
    "pointer_entry_beyond_data",
    "string_pointer_beyond_file",
    "label_text_offset_beyond_file",
    "unterminated_last_string",
    "pack_wrong_magic",
    "pack_size_field_2_30",
    "arc_offset_plus_0x60_overflow",
    "aset_without_clip_table_label",
    "asset_stream_ending_mid_record",
    "random_bytes",
    "golden_seed_mutants",
    "generated_seed_mutants",
];

fn hdr(be: bool, file: u32, data: u32, ptrs: u32, labels: u32, rest: &[u8], total: usize) -> Vec<u8> {
    let mut v = Vec::new();
    image::put32(&mut v, file, be);
    image::put32(&mut v, data, be);
    image::put32(&mut v, ptrs, be);
    image::put32(&mut v, labels, be);
    v.resize(0x20, 0);
    v.extend_from_slice(rest);
    v.resize(total.max(v.len()), 0);
    v
}

pub fn run(cx: &mut Ctx) {
    cx.require(REQUIRED);
    cx.rule = "inputs: (1) random bytes, lengths 0..=4096 with emphasis on 0..=0x40; (2) seeds = the repository's sample files and reference-built bin/text/pack/arc images plus library-built aset/asset-binary files; (3) structure-aware mutants of every seed: every header word, pointer/label table entry, referenced cell and leading/trailing data word replaced by each boundary value (0,1,3,4,7,8,len-1,len,len+1,data-4,data,data+1,len-0x20,0x00FFFFFF,0x01000000,0x7FFFFFFF,0x80000000,0xFFFFFFFC,0xFFFFFFFF,...) in both byte orders, header sums that wrap in 32 bits to {0,data,len-0x20}, string terminators removed, labels renamed, pack magic bit flips and count values, every strict prefix <= 2 KiB; (4) random splices and bit flips. Every input goes to BinArchive::from_bytes LE/BE, TextArchive::from_bytes x {Shift-JIS,UTF-16} x {LE,BE}, arc::from_bytes, fe9_arc::parse, and ASetFile/AssetBinary::from_archive on every accepted archive; Ok results are re-serialized. Monitors: panic hook, abort/signal supervision per case, counting allocator (violation above 128 KiB + 64 x len (512 x len for the asset-binary reader, whose in-memory record is ~900 bytes), hard stop at 256 MiB), CPU clock, over-declaring-header oracle computed in u64. non-trivial = input that got past its parser's first size check or produced an outcome class not seen before; distinct by (input, entry point) hash".into();
    let miri = cfg!(miri);
    // ---- directed situations (the shapes found while reading the code, and their neighbours)
    cx.case("wrapping_header_sum", |c| {
        c.sit("wrapping_header_sum");
        for be in [false, true] {
            probe(c, &hdr(be, 64, 0xFFFF_FFF0, 8, 0, &[], 64), "header data=0xFFFFFFF0 ptrs=8 (sum wraps to 0x10)");
            probe(c, &hdr(be, 64, 0x10, 0x4000_0004, 0, &[], 64), "pointer count * 4 wraps");
            probe(c, &hdr(be, 64, 0x10, 0, 0x2000_0002, &[], 64), "label count * 8 wraps");
            probe(c, &hdr(be, 64, 0xFFFF_FFFF, 0, 0, &[], 64), "data size 0xFFFFFFFF");
            probe(c, &hdr(be, 64, 0x20, 0x3FFF_FFF8, 0, &[], 64), "sum wraps exactly to 0");
        }
    });
    cx.case("pointer_and_string_fields", |c| {
        for be in [false, true] {
            // 8 data bytes, 1 pointer entry
            let mut cellv = Vec::new();
            image::put32(&mut cellv, 0, be);
            image::put32(&mut cellv, 0, be);
            c.sit("pointer_entry_beyond_data");
            for entry in [8u32, 5, 0x7FFF_FFFF, 0xFFFF_FFFC, 0xFFFF_FFFF] {
                let mut rest = cellv.clone();
                image::put32(&mut rest, entry, be);
                probe(c, &hdr(be, 0x2C, 8, 1, 0, &rest, 0x2C), "pointer table entry beyond the data");
            }
            c.sit("string_pointer_beyond_file");
            for target in [0x0Cu32, 0x0D, 0x100, 0x7FFF_FFFF, 0xFFFF_FFDF, 0xFFFF_FFE0, 0xFFFF_FFFF] {
                let mut rest = Vec::new();
                image::put32(&mut rest, target, be);
                image::put32(&mut rest, 0, be);
                image::put32(&mut rest, 0, be); // pointer entry -> cell 0
                rest.extend_from_slice(b"abc");
                probe(c, &hdr(be, 0x2F, 8, 1, 0, &rest, 0x2F), "string pointer beyond the file / unterminated");
            }
            c.sit("label_text_offset_beyond_file");
            for off in [0u32, 3, 4, 0x100, 0x7FFF_FFFF, 0xFFFF_FFD0, 0xFFFF_FFFF] {
                let mut rest = vec![1, 2, 3, 4];
                image::put32(&mut rest, 0, be);
                image::put32(&mut rest, off, be);
                rest.extend_from_slice(b"abc");
                probe(c, &hdr(be, 0x2F, 4, 0, 1, &rest, 0x2F), "label text offset beyond the file / unterminated");
            }
            c.sit("unterminated_last_string");
            let mut rest = vec![1, 2, 3, 4];
            image::put32(&mut rest, 0, be);
            image::put32(&mut rest, 0, be);
            rest.extend_from_slice(b"Label");
            probe(c, &hdr(be, 0x31, 4, 0, 1, &rest, 0x31), "unterminated label name at the end of the file");
        }
    });
    cx.case("pack_fields", |c| {
        c.sit("pack_wrong_magic");
        let mut r = Rng::new(1);
        probe(c, &r.bytes(64), "64 random bytes (no pack magic)");
        probe(c, b"pacK\0\x01\0\0", "magic off by one bit");
        probe(c, b"pack", "magic only");
        probe(c, b"pack\xff\xff\0\0", "count 0xFFFF, no entries");
        // records that share one name (two, or all of them)
        c.sit("pack_records_sharing_a_name");
        for n in [2usize, 3, 5] {
            let files: Vec<(String, Vec<u8>)> = (0..n).map(|i| (format!("file{}.bin", i), vec![i as u8 + 1; 3 + 7 * i])).collect();
            let img = crate::refs::containers::pack_build(&files, &crate::refs::containers::PackPlan::default(), &mut r);
            for dup in 1..n {
                let mut v = img.clone();
                let src: [u8; 4] = [v[8 + 4], v[8 + 5], v[8 + 6], v[8 + 7]];
                v[8 + 16 * dup + 4..8 + 16 * dup + 8].copy_from_slice(&src);
                probe(c, &v, "pack with two records pointing at the same name");
                if dup + 1 < n {
                    v[8 + 16 * (dup + 1) + 4..8 + 16 * (dup + 1) + 8].copy_from_slice(&src);
                    probe(c, &v, "pack with three records pointing at the same name");
                }
            }
        }
        c.sit("pack_size_field_2_30");
        for size in [1u32 << 30, 1 << 28, 1 << 24, 0x7FFF_FFFF, 0xFFFF_FFFF, 65] {
            let mut v = b"pack\0\x01\0\0".to_vec();
            v.extend_from_slice(&[0, 0, 0, 0]);
            v.extend_from_slice(&0x18u32.to_be_bytes()); // name
            v.extend_from_slice(&0x20u32.to_be_bytes()); // body
            v.extend_from_slice(&size.to_be_bytes());
            v.extend_from_slice(b"n\0");
            v.resize(64, 0);
            probe(c, &v, "pack entry whose size field exceeds the file");
        }
    });
    if !cfg!(miri) {
        for count in [4095usize, 4096, 4097, 5000, 8192, 65535] {
            cx.case("pack_many_entries", |c| {
                c.sit("pack_entry_count_around_4096_and_65535");
                let files: Vec<(String, Vec<u8>)> = (0..count).map(|i| (format!("f{}", i), vec![i as u8; i % 3])).collect();
                let mut r = Rng::new(count as u64);
                let img = crate::refs::containers::pack_build(&files, &crate::refs::containers::PackPlan::default(), &mut r);
                probe(c, &img, "conforming pack with many entries");
                // the same header over a buffer that ends inside the entry table / right after it
                for keep in [8 + 16 * 4096usize, 8 + 16 * 4096 + 8, 8 + 16 * (count - 1), 8 + 16 * count] {
                    if keep < img.len() {
                        probe(c, &img[..keep], "pack with many entries, buffer cut in or right after the entry table");
                    }
                }
            });
        }
    }
    if !cfg!(miri) {
        // every entry in range, but the entries overlap so heavily that their sizes add up to more
        // than 2^32 (sums of size fields must not be formed in 32 bits)
        cx.case("pack_overlapping_entries", |c| {
            c.sit("pack_entries_whose_sizes_add_up_beyond_4GiB");
            let count = 65535usize;
            let mut img = vec![0u8; 8 + 16 * count + 32];
            img[0..4].copy_from_slice(b"pack");
            img[4..6].copy_from_slice(&(count as u16).to_be_bytes());
            let name_at = (8 + 16 * count) as u32; // a zero byte: the empty name
            for i in 0..count {
                let e = 8 + 16 * i;
                img[e + 4..e + 8].copy_from_slice(&name_at.to_be_bytes());
                img[e + 8..e + 12].copy_from_slice(&0u32.to_be_bytes());
                img[e + 12..e + 16].copy_from_slice(&0x0001_0010u32.to_be_bytes());
            }
            probe(c, &img, "pack of 65535 overlapping entries of 0x10010 bytes each (4.3 GB in total)");
        });
    }
    cx.case("arc_fields", |c| {
        c.sit("arc_offset_plus_0x60_overflow");
        let files = vec![("a.bin".to_string(), vec![1u8, 2, 3]), ("b.bin".to_string(), vec![4u8; 9])];
        let mut r = Rng::new(2);
        for _ in 0..(if cfg!(miri) { 3 } else { 24 }) {
            let plan = ArcPlan { padded_header: true, out_of_range_record: Some(r.below(2)), ..Default::default() };
            probe(c, &arc_build(&files, &plan, &mut r), "arc record range outside the data");
        }
        // the same with long names whose multi-byte characters sit at every offset around 64 / 128 / 256
        if !cfg!(miri) {
            for pre in [29usize, 30, 31, 61, 62, 63, 64, 125, 126, 127, 253, 254, 255] {
                let long: Vec<(String, Vec<u8>)> = vec![(format!("{}あいうえお.bin", "a".repeat(pre)), vec![7u8; 5]), (format!("{}日本語ﾃｸｽﾁｬ", "b".repeat(pre)), vec![8u8; 3])];
                for slot in 0..2 {
                    let plan = ArcPlan { padded_header: pre % 2 == 0, out_of_range_record: Some(slot), ..Default::default() };
                    probe(c, &arc_build(&long, &plan, &mut r), "arc record range outside the data, long non-ASCII names");
                }
                probe(c, &arc_build(&long, &ArcPlan { nameless_record: Some(0), ..Default::default() }, &mut r), "arc record without a name next to long non-ASCII names");
            }
        }
        // Count = 0, 1, 2^31, 2^32-1
        let base = arc_build(&files, &ArcPlan { padded_header: true, ..Default::default() }, &mut Rng::new(3));
        if let Ok(p) = image::parse_strict(&base, false) {
            if let Some((addr, _)) = p.arch.labels.iter().find(|(_, l)| l.iter().any(|x| x == "Count")) {
                let cnts: &[u32] = if cfg!(miri) { &[0, 0xFFFF_FFFF] } else { &[0, 1, 3, 0x8000_0000, 0xFFFF_FFFF] };
                for &cnt in cnts {
                    let mut m = base.clone();
                    set32(&mut m, 0x20 + addr, cnt, false);
                    probe(c, &m, "arc Count word replaced");
                }
            }
        }
    });
    cx.case("aset_asset_shapes", |c| {
        c.sit("aset_without_clip_table_label");
        c.sit("asset_stream_ending_mid_record");
        let mut r = Rng::new(4);
        let mut a = c17::gen(&mut r, true);
        a.sets.truncate(1);
        let mut f = ASetFile::new(a.meta.clone());
        f.anim_clip_table = a.clips.clone();
        f.sets = a.sets.clone();
        if let Ok(bytes) = f.serialize() {
            if let Some(pos) = bytes.windows(17).position(|w| w == b"AnimClipNameTable") {
                let mut m = bytes.clone();
                m[pos] = b'a';
                probe(c, &m, "aset without the AnimClipNameTable label");
                // near-miss spellings of the table's label (shortened in place, the tail becomes
                // NULs so the text offsets stay valid) - among them the spelling the library's
                // own error message uses - each with huge words where a reader might look for a count
                let alts: &[&[u8]] = if cfg!(miri) { &[b"AnimClipTable"] } else { &[b"AnimClipTable", b"AnimClipName", b"AnimClipNameTabl", b"AnimClip", b"animclipnametable", b"ANIMCLIPNAMETABLE"] };
                for alt in alts.iter().copied() {
                    let mut m = bytes.clone();
                    for i in 0..17 {
                        m[pos + i] = if i < alt.len() { alt[i] } else { 0 };
                    }
                    probe(c, &m, "aset whose table label has a near-miss spelling");
                    if cfg!(miri) {
                        continue;
                    }
                    for word in [0x7FFF_FFFFu32, 0xFFFF_FFFE, 0xFFFF_FFFF, 0x1000_0000, 0x0100_0000] {
                        for at in [0usize, 4, 8, 12, 16] {
                            if m.len() >= 0x20 + at + 4 {
                                let mut m2 = m.clone();
                                set32(&mut m2, 0x20 + at, word, false);
                                probe(c, &m2, "aset whose table label has a near-miss spelling and a huge header word");
                            }
                        }
                    }
                }
            }
            // data size shortened so the clip table / a set ends mid-way
            let cuts: &[u32] = if cfg!(miri) { &[12, 1044] } else { &[4, 12, 16, 600, 1040, 1044, 1048] };
            for &cut in cuts {
                let mut m = bytes.clone();
                set32(&mut m, 4, cut, false);
                probe(c, &m, "aset with a shortened data size");
            }
        }
        let mut b = AssetBinary::new();
        b.specs.push(c18::gen_spec(&mut r));
        b.specs.push(c18::gen_spec(&mut r));
        if let Ok(bytes) = b.serialize() {
            let d = get32(&bytes, 4, false).unwrap_or(0);
            for cut in (0..d.min(200)).step_by(if cfg!(miri) { 23 } else { 1 }) {
                let mut m = bytes.clone();
                set32(&mut m, 4, cut, false);
                probe(c, &m, "asset binary whose data ends mid-record");
            }
        }
    });
    // ---- golden seeds and their mutants
    let repo = cx.a.repo.clone();
    let gs = golden(&repo);
    for (gi, s) in gs.iter().enumerate() {
        if miri && (s.bytes.len() > 600 || gi % 3 != 0) {
            continue; // Miri: the small sample files only
        }
        let ms = mutants(s);
        for chunk in ms.chunks(64) {
            cx.case("golden_seed_mutants", |c| {
                c.sit("golden_seed_mutants");
                probe(c, &s.bytes, "golden seed");
                for (i, (what, m)) in chunk.iter().enumerate() {
                    if miri && i % 32 != 0 {
                        continue;
                    }
                    probe(c, m, what);
                }
            });
        }
    }
    // ---- generated seeds, their mutants, splices and bit flips
    let n = cx.a.n(4_000, 100_000);
    for _ in 0..n {
        cx.case("generated_seed_mutants", |c| {
            c.sit("generated_seed_mutants");
            let mut rng = c.rng.clone();
            let s = gen_seed(&mut rng, miri);
            probe(c, &s.bytes, "generated seed");
            let ms = mutants(&s);
            let take = if miri { 6 } else { 160 };
            // deterministic sample of the mutant list (all of it when short)
            let stride = (ms.len() / take).max(1);
            let start = rng.below(stride);
            for (what, m) in ms.iter().skip(start).step_by(stride) {
                probe(c, m, what);
            }
            // the seed without its last byte(s): in canonical images that is the terminator of the last
            // string of the text section / name table
            for cut in 1..=3usize {
                if s.bytes.len() > 0x20 + cut {
                    probe(c, &s.bytes[..s.bytes.len() - cut], "seed minus its last bytes");
                }
            }
            // random splices and bit flips
            for _ in 0..if miri { 2 } else { 24 } {
                let mut m = s.bytes.clone();
                if m.is_empty() {
                    break;
                }
                match rng.below(4) {
                    0 => {
                        let i = rng.below(m.len());
                        m[i] ^= 1 << rng.below(8);
                    }
                    1 => {
                        let i = rng.below(m.len());
                        let n = rng.range(1, 8).min(m.len() - i);
                        for k in 0..n {
                            m[i + k] = rng.u8();
                        }
                    }
                    2 => {
                        let i = rng.below(m.len());
                        let j = rng.below(m.len());
                        let n = rng.range(1, 16).min(m.len() - i).min(m.len() - j);
                        let src: Vec<u8> = m[j..j + n].to_vec();
                        m[i..i + n].copy_from_slice(&src);
                    }
                    _ => {
                        let i = rng.below(m.len());
                        let n = rng.range(1, 12);
                        let ins = rng.bytes(n);
                        m.splice(i..i, ins);
                    }
                }
                probe(c, &m, "random splice / bit flip");
            }
            c.sample(s.kind, || J::obj(vec![("seed_kind", J::s(s.kind)), ("seed_len", J::U(s.bytes.len() as u64)), ("mutants_available", J::U(ms.len() as u64)), ("example_mutant", J::s(ms.get(ms.len() / 2).map(|x| x.0.clone()).unwrap_or_default())), ("seed_hex", J::s(hex_short(&s.bytes, 96)))]));
        });
    }
    // ---- random bytes
    let n = cx.a.n(2_000, 200_000);
    for _ in 0..n {
        cx.case("random_bytes", |c| {
            c.sit("random_bytes");
            let mut rng = c.rng.clone();
            for _ in 0..if miri { 2 } else { 16 } {
                let len = if rng.chance(2, 3) { rng.range(0, 0x40) } else { rng.range(0, if miri { 80 } else { 4096 }) };
                let mut v = rng.bytes(len);
                // make headers plausible often enough to get past the first size check
                if len >= 0x20 && rng.chance(2, 3) {
                    let be = rng.bool();
                    set32(&mut v, 4, rng.below(len) as u32, be);
                    set32(&mut v, 8, rng.below(8) as u32, be);
                    set32(&mut v, 12, rng.below(8) as u32, be);
                }
                if len >= 8 && rng.chance(1, 6) {
                    v[0..4].copy_from_slice(b"pack");
                    v[4] = 0;
                    v[5] = rng.below(4) as u8;
                }
                probe(c, &v, "random bytes");
            }
        });
    }
}
