//! C06 — text archive round trip preserves title, key order and every message.
use crate::ctx::{Case, Ctx};
use crate::json::{hex_short, J};
use crate::prng::{fnv, fnv_add, Rng};
use crate::refs::archive::endian;
use crate::refs::strings::{gen_ident, gen_sjis, gen_sjis_nonempty, gen_unicode, sjis_encode};
use crate::refs::text::{read_text_image, unescape, write_text_image};
use mila::{TextArchive, TextArchiveFormat};

#[derive(Clone, Debug)]
pub struct Content {
    pub unicode: bool,
    pub be: bool,
    pub title: String,
    pub entries: Vec<(String, String)>,
}

fn fmt(unicode: bool) -> TextArchiveFormat {
    if unicode {
        TextArchiveFormat::Unicode
    } else {
        TextArchiveFormat::ShiftJIS
    }
}

impl Content {
    pub fn describe(&self) -> String {
        let shown: Vec<String> = self.entries.iter().take(6).map(|(k, v)| format!("{:?}=>{:?}", k, v)).collect();
        format!(
            "{{format:{}, endian:{}, title:{:?}, {} entries: [{}{}]}}",
            if self.unicode { "Unicode" } else { "ShiftJIS" },
            if self.be { "BE" } else { "LE" },
            self.title,
            self.entries.len(),
            shown.join(", "),
            if self.entries.len() > 6 { ", ..." } else { "" }
        )
    }
    pub fn fp(&self) -> u64 {
        let mut h = fnv(self.title.as_bytes());
        h = fnv_add(h, &[self.unicode as u8, self.be as u8]);
        for (k, v) in &self.entries {
            h = fnv_add(h, k.as_bytes());
            h = fnv_add(h, b"=");
            h = fnv_add(h, v.as_bytes());
        }
        h
    }
}

/// The round-trip monitor. `t` must already hold `content` (stored messages, after unescaping).
pub fn check_roundtrip(c: &mut Case, name: &str, t: &TextArchive, content: &Content) {
    let ser = match c.lib_stable("TextArchive::serialize", || t.serialize().map_err(|e| e.to_string())) {
        None => return,
        Some(Err(e)) => {
            // text the file's Shift-JIS parts (title, keys; messages of the legacy format) cannot
            // express may be refused; if it is accepted it must come back unchanged (checked below)
            let unrepresentable = crate::refs::strings::unencodable(&content.title)
                || content.entries.iter().any(|(k, v)| crate::refs::strings::unencodable(k) || (!content.unicode && crate::refs::strings::unencodable(v)));
            if unrepresentable {
                c.outcome("serialize_refused_unencodable_text");
            } else {
                c.fail("serialize_err", "serialize_err", format!("{}: serialize returned Err({}) for {}", name, e, content.describe()));
            }
            return;
        }
        Some(Ok(b)) => b,
    };
    // reference reader on the image
    match read_text_image(&ser, content.be, content.unicode) {
        Err(e) => c.fail(
            "image",
            "image_malformed",
            format!("{}: serialized text archive is not well-formed: {}; content={} image={}", name, e, content.describe(), hex_short(&ser, 300)),
        ),
        Ok(img) => {
            if content.unicode && img.title.as_deref() != Some(content.title.as_str()) {
                c.fail("image", "image_title", format!("{}: title in the image is {:?}, expected {:?}", name, img.title, content.title));
            }
            let got: Vec<(String, String)> = img.entries.iter().map(|(k, m, _)| (k.clone(), m.clone())).collect();
            if got != content.entries {
                let i = got.iter().zip(content.entries.iter()).position(|(a, b)| a != b).unwrap_or(got.len().min(content.entries.len()));
                c.fail(
                    "image",
                    "image_content",
                    format!(
                        "{}: reference reader finds different entries in the image (first difference at #{}: got {:?} expected {:?}; {} vs {} entries); content={}",
                        name,
                        i,
                        got.get(i),
                        content.entries.get(i),
                        got.len(),
                        content.entries.len(),
                        content.describe()
                    ),
                );
            }
        }
    }
    // library re-parse (not under Miri for the UTF-16 format: encoding_rs 0.8.24's UTF-16 decoder
    // uses mem::uninitialized, which Miri rejects - a tool limit, see DESIGN §2.3)
    if cfg!(miri) && content.unicode {
        c.outcome("miri_skipped_utf16_reparse");
        return;
    }
    let ser_t = crate::monitor::tight(&ser);
    match c.lib("TextArchive::from_bytes", || TextArchive::from_bytes(&ser_t, fmt(content.unicode), endian(content.be))) {
        None => {}
        Some(Err(e)) => c.fail(
            "reparse_err",
            "reparse_err",
            format!("{}: from_bytes(serialize(t)) returned Err({}); content={} image={}", name, e, content.describe(), hex_short(&ser, 300)),
        ),
        Some(Ok(re)) => {
            if content.unicode && re.get_title() != content.title {
                c.fail("roundtrip", "roundtrip_title", format!("{}: title {:?} came back as {:?}", name, content.title, re.get_title()));
            }
            let got: Vec<(String, String)> = re.get_entries().iter().map(|(k, v)| (k.clone(), v.clone())).collect();
            if got != content.entries {
                let i = got.iter().zip(content.entries.iter()).position(|(a, b)| a != b).unwrap_or(got.len().min(content.entries.len()));
                c.fail(
                    "roundtrip",
                    "roundtrip_entries",
                    format!(
                        "{}: entries differ after the round trip (first difference at #{}: got {:?} expected {:?}; {} vs {} entries); content={}",
                        name,
                        i,
                        got.get(i).map(|(k, v)| (k, v.chars().map(|ch| format!("U+{:04X}", ch as u32)).collect::<Vec<_>>().join(" "))),
                        content.entries.get(i).map(|(k, v)| (k, v.chars().map(|ch| format!("U+{:04X}", ch as u32)).collect::<Vec<_>>().join(" "))),
                        got.len(),
                        content.entries.len(),
                        content.describe()
                    ),
                );
            }
            if re.is_dirty() {
                c.fail("dirty", "parsed_dirty", format!("{}: a freshly parsed archive reports is_dirty() == true", name));
            }
            // the other route to the same value: bin archive first, then TextArchive::from_archive
            let via = c.lib("BinArchive::from_bytes + TextArchive::from_archive", || -> Result<TextArchive, String> {
                let a = mila::BinArchive::from_bytes(&ser_t, endian(content.be)).map_err(|e| e.to_string())?;
                TextArchive::from_archive(&a, fmt(content.unicode), endian(content.be)).map_err(|e| e.to_string())
            });
            match via {
                None => {}
                Some(Err(e)) => c.fail("two_routes", "from_archive_err", format!("{}: from_bytes accepts the image but from_archive(BinArchive::from_bytes(..)) fails: {}", name, e)),
                Some(Ok(v)) => {
                    let a: Vec<(&String, &String)> = v.get_entries().iter().collect();
                    let b: Vec<(&String, &String)> = re.get_entries().iter().collect();
                    if a != b || v.get_title() != re.get_title() {
                        c.fail("two_routes", "from_archive_differs", format!("{}: TextArchive::from_archive and TextArchive::from_bytes disagree on the same image; content={}", name, content.describe()));
                    }
                }
            }
        }
    }
    c.sample(if content.unicode { "unicode" } else { "shift_jis" }, || {
        J::obj(vec![
            ("name", J::s(name)),
            ("content", J::s(content.describe())),
            ("image_hex", J::s(hex_short(&ser, 160))),
            ("observed", J::s("reference reader: aligned, labelled, terminated messages equal to the input; library re-parse equal")),
        ])
    });
}

pub fn build(c: &mut Case, content: &Content) -> Option<TextArchive> {
    c.lib("TextArchive::new/set_*", || {
        let mut t = TextArchive::new(fmt(content.unicode), endian(content.be));
        t.set_title(content.title.clone());
        for (k, v) in &content.entries {
            t.set_message(k, v);
        }
        t
    })
}

fn check(c: &mut Case, name: &str, raw: &Content) {
    // what set_message stores: the message with escape sequences turned into newlines
    let mut content = raw.clone();
    for e in content.entries.iter_mut() {
        e.1 = unescape(&e.1);
    }
    if content.entries.is_empty() {
        c.sit("empty_archive");
    }
    if content.entries.iter().any(|(_, v)| v.is_empty()) {
        c.sit("empty_message");
    }
    if content.entries.last().map(|(_, v)| v.is_empty()).unwrap_or(false) {
        c.sit("last_message_empty");
    }
    if content.entries.iter().any(|(_, v)| v.starts_with('\u{feff}') || v.starts_with('\u{fffe}') || v.starts_with('\u{bbef}')) {
        c.sit("message_starts_with_bom_like_char");
    }
    if content.entries.iter().any(|(_, v)| v.chars().any(|ch| ch as u32 > 0xFFFF)) {
        c.sit("astral_character");
    }
    if content.entries.iter().any(|(k, _)| content.entries.iter().any(|(_, v2)| v2 == k)) {
        c.sit("key_equals_a_message");
    }
    if content.entries.len() >= 2 && content.entries.iter().any(|(_, v)| !v.is_ascii()) {
        c.nontrivial(content.fp());
    }
    if content.entries.iter().any(|(k, v)| sjis_encode(k).map(|b| b.len() >= 1024).unwrap_or(false) || (!content.unicode && sjis_encode(v).map(|b| b.len() >= 1024).unwrap_or(false)))
        || (content.unicode && sjis_encode(&content.title).map(|b| b.len() >= 1024).unwrap_or(false))
    {
        c.sit("long_shift_jis_string");
    }
    if let Some(mut t) = build(c, raw) {
        check_roundtrip(c, name, &t, &content);
        // the same object, edited after it has been serialized once, serialized again
        if content.entries.len() >= 3 {
            c.sit("same_object_serialized_edited_serialized");
            let mut c3 = content.clone();
            let mut r3 = c.rng.clone();
            let i = r3.below(c3.entries.len() - 2); // not among the last two
            let (k, _) = c3.entries.remove(i);
            t.delete_message(&k);
            if r3.bool() {
                let j = r3.below(c3.entries.len());
                c3.entries[j].1 = "edited after first serialize".to_string();
                let kk = c3.entries[j].0.clone();
                t.set_message(&kk, "edited after first serialize");
            }
            check_roundtrip(c, "serialized, edited, serialized again (same object)", &t, &c3);
            return;
        }
        // second generation: an archive obtained by parsing, then edited, must round-trip too
        if cfg!(miri) && content.unicode {
            return;
        }
        let mut rng = c.rng.clone();
        if content.entries.is_empty() && !rng.chance(1, 4) {
            return;
        }
        let parsed = c.lib("serialize + from_bytes (second generation)", || -> Result<TextArchive, String> {
            let b = t.serialize().map_err(|e| e.to_string())?;
            TextArchive::from_bytes(&b, fmt(content.unicode), endian(content.be)).map_err(|e| e.to_string())
        });
        if let Some(Ok(mut t2)) = parsed {
            let mut c2 = content.clone();
            let mode = rng.below(4);
            // 0: only a title change, 1: only deletions, 2: deletions + title, 3: deletions + a new/overwritten message
            if mode == 0 || mode == 2 {
                c2.title = format!("{}x", c2.title);
                t2.set_title(c2.title.clone());
                c.sit("parsed_then_set_title");
            }
            if mode >= 1 && !c2.entries.is_empty() {
                let ndel = rng.range(1, c2.entries.len().min(3));
                for _ in 0..ndel {
                    if c2.entries.is_empty() {
                        break;
                    }
                    let i = rng.below(c2.entries.len());
                    let (k, _) = c2.entries.remove(i);
                    t2.delete_message(&k);
                }
                c.sit("parsed_then_delete");
            }
            if mode == 3 {
                let key = if !c2.entries.is_empty() && rng.bool() { c2.entries[rng.below(c2.entries.len())].0.clone() } else { "NEW_KEY_second_generation".to_string() };
                let val = "second generation".to_string();
                t2.set_message(&key, &val);
                match c2.entries.iter_mut().find(|(k, _)| *k == key) {
                    Some(e) => e.1 = val,
                    None => c2.entries.push((key, val)),
                }
            }
            if !content.unicode {
                c2.title = String::new(); // the legacy format has no title
            }
            check_roundtrip(c, "parsed, edited, serialized again", &t2, &c2);
        }
    }
}

fn distinct_keys(rng: &mut Rng, n: usize) -> Vec<String> {
    let mut keys: Vec<String> = Vec::new();
    if n >= 2 && rng.chance(1, 20) {
        // two distinct keys that collide under a common hash function
        let (a, b) = *rng.pick(&crate::refs::strings::COLLIDING_PAIRS);
        keys.push(a.to_string());
        keys.push(b.to_string());
        rng.shuffle(&mut keys);
    }
    while keys.len() < n {
        let k = if rng.chance(2, 3) { format!("MID_{}", gen_ident(rng, 8)) } else { gen_sjis_nonempty(rng, 8) };
        if !keys.contains(&k) {
            keys.push(k);
        }
    }
    keys
}

/// A text archive that was not written by the library (so its messages never went through
/// set_message): whatever value parsing yields, that value must survive serialize + parse.
pub fn check_parsed_foreign(c: &mut Case, content: &Content, alias: bool) {
    let enc = |s: &str| sjis_encode(s).map(|b| !b.contains(&0)).unwrap_or(false);
    if !enc(&content.title) || content.entries.iter().any(|(k, v)| !enc(k) || k.is_empty() || v.contains('\0') || (!content.unicode && !enc(v))) {
        return; // the reference writer only builds files whose Shift-JIS parts are expressible
    }
    let mut rng = c.rng.clone();
    let entries: Vec<(Vec<String>, String)> = content
        .entries
        .iter()
        .enumerate()
        .map(|(i, (k, v))| {
            let mut labels = vec![k.clone()];
            if alias && rng.chance(1, 3) {
                labels.push(format!("ALIAS_{}", i));
            }
            (labels, v.clone())
        })
        .collect();
    c.rng = rng;
    let img = write_text_image(content.be, content.unicode, &content.title, &entries);
    if cfg!(miri) && content.unicode {
        return;
    }
    let img_t = crate::monitor::tight(&img);
    let t = match c.lib("TextArchive::from_bytes (reference-built image)", || TextArchive::from_bytes(&img_t, fmt(content.unicode), endian(content.be))) {
        Some(Ok(t)) => t,
        Some(Err(_)) => {
            c.outcome("foreign_image_refused");
            return;
        }
        None => return,
    };
    c.sit("parsed_from_reference_built_image");
    let held = Content { unicode: content.unicode, be: content.be, title: if content.unicode { t.get_title().to_string() } else { String::new() }, entries: t.get_entries().iter().map(|(k, v)| (k.clone(), v.clone())).collect() };
    if !alias && held.entries != content.entries {
        c.fail("foreign", "foreign_image_content", format!("a conforming image built by the reference writer parses to different entries: got {} expected {}", held.describe(), content.describe()));
        return;
    }
    check_roundtrip(c, "value parsed from a reference-built image", &t, &held);
}

pub fn gen(rng: &mut Rng, quick: bool) -> Content {
    let unicode = rng.chance(2, 3);
    let be = rng.bool();
    let n = if cfg!(miri) { rng.range(0, 3) } else { rng.skewed(if quick { 40 } else { 200 }) };
    let keys = distinct_keys(rng, n);
    let title = gen_sjis(rng, 9);
    let mut entries = Vec::new();
    for k in keys {
        let long = rng.chance(1, 20);
        let v = if unicode {
            gen_unicode(rng, if long { 200 } else { 12 })
        } else {
            gen_sjis(rng, if long { 120 } else { 12 })
        };
        entries.push((k, v));
    }
    if n >= 2 && rng.chance(1, 6) {
        let k0 = entries[0].0.clone();
        entries[1].1 = k0;
    }
    let mut title = title;
    if rng.chance(1, 10) {
        // the shape the games' own files use (MESS_ARCHIVE_<name>), also bare and repeated
        let reps = 1 + rng.below(3);
        let rest = if rng.chance(1, 4) { String::new() } else { title.clone() };
        title = format!("{}{}", "MESS_ARCHIVE_".repeat(reps), rest);
    }
    if !cfg!(miri) && rng.chance(1, 12) {
        // a Shift-JIS string longer than 1 KiB, two-byte characters at every alignment
        let len = rng.range(520, 1400);
        let lead = rng.range(0, 3);
        let mut s: String = "x".repeat(lead);
        for _ in 0..len {
            let cp = if rng.chance(1, 9) { rng.range(0x41, 0x5a) as u32 } else { rng.range(0x3041, 0x3093) as u32 };
            s.push(char::from_u32(cp).unwrap());
        }
        if unicode || entries.is_empty() {
            title = s;
        } else {
            let i = rng.below(entries.len());
            entries[i].1 = s;
        }
    }
    if n >= 1 && rng.chance(1, 6) {
        let l = entries.len() - 1;
        entries[l].1 = String::new();
    }
    if n >= 1 && rng.chance(1, 25) && !entries.iter().any(|(k, _)| k.is_empty()) {
        // the empty string is a key like any other
        let i = rng.below(entries.len());
        entries[i].0 = String::new();
    }
    if n >= 1 && rng.chance(1, 10) {
        // CR LF pairs, a lone CR, LF CR: all distinct texts
        let i = rng.below(entries.len());
        entries[i].1 = rng.pick(&["a\r\nb", "\r\n", "a\rb\n", "x\n\ry", "line1\r\nline2\r\n"]).to_string();
    }
    if rng.chance(1, 50) {
        // text outside Shift-JIS where the file needs Shift-JIS: the title, a key, or a legacy message
        let u = rng.pick(&crate::refs::strings::UNENCODABLE).to_string();
        match rng.below(3) {
            0 => title = u,
            1 if !entries.is_empty() => {
                let i = rng.below(entries.len());
                if !entries.iter().any(|(k, _)| *k == u) {
                    entries[i].0 = u;
                }
            }
            _ if !entries.is_empty() && !unicode => {
                let i = rng.below(entries.len());
                entries[i].1 = u;
            }
            _ => title = u,
        }
    }
    Content { unicode, be, title, entries }
}

pub const REQUIRED: &[&str] = &[
    "empty_archive",
    "empty_message",
    "last_message_empty",
    "message_starts_with_bom_like_char",
    "astral_character",
    "key_equals_a_message",
    "every_bmp_scalar",
    "parsed_then_set_title",
    "parsed_then_delete",
    "poisoned_by_failing_calls_first",
    "long_shift_jis_string",
    "same_object_serialized_edited_serialized",
    "key_count_around_256_4096_65536",
    "parsed_from_reference_built_image",
];

pub fn run(cx: &mut Ctx) {
    cx.require(REQUIRED);
    cx.rule = "directed archives (empty, empty messages, BOM-like first characters) + exhaustive: every message length 0..=8 in every format/endian combination, every BMP scalar value except NUL/surrogates as a one-character message and as the first character of a two-character message (UTF-16 format) + random archives (0..=40 keys quick, 0..=200 thorough; messages from all of Unicode for the UTF-16 format, from the Shift-JIS domain for the legacy format). Each archive is serialized, read by the independent reference reader (alignment, labels, terminators, content) and re-parsed by the library. non-trivial = archive with >=2 keys and >=1 non-ASCII message; archives with 255..65537 keys; UTF-16 messages of 255..8193 units with an astral character across the boundary; Latin-1-only messages; text the Shift-JIS parts cannot express (must be refused or kept intact); distinct by content hash".into();
    // ---- directed
    for unicode in [false, true] {
        for be in [false, true] {
            let base = Content { unicode, be, title: String::new(), entries: vec![] };
            cx.case("empty_archive", |c| check(c, "empty_archive", &base));
            let mut one = base.clone();
            one.entries.push(("K".into(), String::new()));
            cx.case("one_empty_message", |c| check(c, "one_empty_message", &one));
            let mut t = base.clone();
            t.title = "タイトル".into();
            t.entries = vec![("A".into(), "B".into()), ("B".into(), "x".into()), ("C".into(), String::new())];
            cx.case("key_equals_message", |c| check(c, "key_equals_message", &t));
            // every message length 0..=8 and every title length 0..=9 (all padding residues)
            for len in 0..=9usize {
                let mut t = base.clone();
                t.title = "t".repeat(len);
                for l in 0..=8usize {
                    t.entries.push((format!("k{}", l), "m".repeat(l)));
                    if !unicode {
                        t.entries.push((format!("j{}", l), "あ".repeat(l)));
                    } else {
                        t.entries.push((format!("j{}", l), "\u{1F600}".repeat(l)));
                    }
                }
                cx.case("length_residues", |c| check(c, "length_residues", &t));
            }
        }
    }
    for be in [false, true] {
        let mut t = Content { unicode: true, be, title: "BOMs".into(), entries: vec![] };
        for (i, s) in ["\u{feff}abc", "\u{fffe}abc", "\u{bbef}\u{00bf}abc", "a\u{feff}", "\u{feff}", "\u{fffe}", "\u{ffff}x", "\u{feff}\u{feff}x"].iter().enumerate() {
            t.entries.push((format!("bom{}", i), s.to_string()));
        }
        cx.case("bom_like_first_characters", |c| check(c, "bom_like_first_characters", &t));
    }
    // ---- files that did not come out of the library: messages that never passed set_message
    for unicode in [false, true] {
        for be in [false, true] {
            let t = Content {
                unicode,
                be,
                title: "foreign".into(),
                entries: vec![("A".into(), "a\\nb".into()), ("B".into(), "\\n".into()), ("C".into(), "x\\".into()), ("D".into(), "\\\\n\n\\n".into()), ("E".into(), String::new()), ("F".into(), "n\\".into())],
            };
            cx.case("foreign_image", |c| {
                check_parsed_foreign(c, &t, false);
                check_parsed_foreign(c, &t, true);
            });
        }
    }
    // ---- exhaustive: every BMP scalar as a 1-char message and as first char of a 2-char message
    let step = if cfg!(miri) { 16411 } else { 1 };
    let per = 256u32;
    let mut cp = 1u32;
    while cp <= 0xFFFF {
        let lo = cp;
        let hi = (cp + per * step - 1).min(0xFFFF);
        for two in [false, true] {
            cx.case("every_bmp_scalar", |c| {
                c.sit("every_bmp_scalar");
                let mut t = Content { unicode: true, be: (lo / per) % 2 == 1, title: String::new(), entries: vec![] };
                let mut x = lo;
                while x <= hi {
                    if let Some(ch) = char::from_u32(x) {
                        let mut m = String::new();
                        m.push(ch);
                        if two {
                            m.push('z');
                        }
                        if ch != '\\' || !two {
                            t.entries.push((format!("U{:04X}", x), m));
                        }
                    }
                    x += step;
                }
                c.eval(t.entries.len() as u64);
                check(c, "every_bmp_scalar", &t);
            });
        }
        cp = hi + 1;
    }
    // ---- thresholds: key counts at and around 256 / 4096 / 65536
    if !cfg!(miri) {
        for (i, count) in [255usize, 256, 257, 1023, 1024, 1025, 4095, 4096, 4097, 65535, 65536, 65537].into_iter().enumerate() {
            for unicode in [false, true] {
                if count > 60000 && cx.a.quick() && (i + unicode as usize) % 2 == 0 {
                    continue;
                }
                cx.case("key_count_thresholds", |c| {
                    c.sit("key_count_around_256_4096_65536");
                    let be = c.rng.bool();
                    let entries: Vec<(String, String)> = (0..count).map(|k| (format!("MID_{:05}", k), if k % 3 == 0 { format!("m{}", k) } else { "あ".to_string() })).collect();
                    let t = Content { unicode, be, title: "T".into(), entries };
                    c.eval(count as u64);
                    check(c, "key_count_thresholds", &t);
                });
            }
        }
    }
    // ---- random
    let n = cx.a.n(200_000, 2_000_000);
    let quick = cx.a.quick();
    for _ in 0..n {
        cx.case("random", |c| {
            super::poison::maybe(c, 7);
            let mut rng = c.rng.clone();
            let content = gen(&mut rng, quick);
            let foreign = rng.below(8);
            check(c, "random", &content);
            if foreign < 2 {
                check_parsed_foreign(c, &content, foreign == 1);
            }
        });
    }
}
