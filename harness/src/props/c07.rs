//! C07 — text archive is an insertion-ordered map with symmetric newline escaping.
use super::c06;
use crate::ctx::{Case, Ctx};
use crate::json::J;
use crate::prng::{fnv, fnv_add, Rng};
use crate::refs::text::{escape, unescape, write_text_image};
use mila::{Endian, TextArchive, TextArchiveFormat};

#[derive(Clone, Debug)]
pub enum TOp {
    Set(String, String),
    Delete(String),
    GetSet(String), // set(k, get(k)) when present
    SetTitle(String),
    Has(String),
}

#[derive(Clone, Default)]
pub struct Model {
    pub title: String,
    pub entries: Vec<(String, String)>,
    pub dirty: bool,
}

impl Model {
    fn pos(&self, k: &str) -> Option<usize> {
        self.entries.iter().position(|(x, _)| x == k)
    }
    fn set(&mut self, k: &str, v: &str) {
        let stored = unescape(v);
        match self.pos(k) {
            Some(i) => self.entries[i].1 = stored,
            None => self.entries.push((k.to_string(), stored)),
        }
        self.dirty = true;
    }
    fn delete(&mut self, k: &str) {
        if let Some(i) = self.pos(k) {
            self.entries.remove(i);
        }
    }
    fn get(&self, k: &str) -> Option<String> {
        self.pos(k).map(|i| escape(&self.entries[i].1))
    }
}

fn compare(c: &mut Case, t: &TextArchive, m: &Model, keys: &[String], hist: &str, prev_dirty: bool, was_set: bool) -> bool {
    let got: Vec<(String, String)> = t.get_entries().iter().map(|(k, v)| (k.clone(), v.clone())).collect();
    if got != m.entries {
        c.fail("order_or_value", "entries", format!("after [{}]: get_entries() = {:?}, expected {:?}", hist, got, m.entries));
        return false;
    }
    for k in keys {
        let has = t.has_message(k);
        if has != m.pos(k).is_some() {
            c.fail("has_message", "has_message", format!("after [{}]: has_message({:?}) = {}, expected {}", hist, k, has, !has));
            return false;
        }
        let g = t.get_message(k);
        if g != m.get(k) {
            c.fail("get_message", "get_message", format!("after [{}]: get_message({:?}) = {:?}, expected {:?}", hist, k, g, m.get(k)));
            return false;
        }
    }
    if t.get_title() != m.title {
        c.fail("title", "title", format!("after [{}]: get_title() = {:?}, expected {:?}", hist, t.get_title(), m.title));
        return false;
    }
    let d = t.is_dirty();
    if was_set && !d {
        c.fail("dirty", "dirty_after_set", format!("after [{}]: is_dirty() is false after a set_message", hist));
        return false;
    }
    if prev_dirty && !d {
        c.fail("dirty", "dirty_cleared", format!("after [{}]: is_dirty() went from true to false without a save", hist));
        return false;
    }
    true
}

/// Run a history on a fresh archive, comparing with the model after every step.
pub fn run_history(c: &mut Case, ops: &[TOp], keys: &[String], roundtrip: bool) {
    run_history_from(c, ops, keys, roundtrip, &[])
}

pub fn run_history_from(c: &mut Case, ops: &[TOp], keys: &[String], roundtrip: bool, parsed_start: &[(String, String)]) {
    run_history_fmt(c, ops, keys, roundtrip, parsed_start, true, false)
}

/// `parsed_start`: when non-empty, the history starts from an archive that was built with these
/// entries, serialized and parsed back (so its dirty flag must be clear).
pub fn run_history_fmt(c: &mut Case, ops: &[TOp], keys: &[String], roundtrip: bool, parsed_start: &[(String, String)], unicode: bool, be: bool) {
    // under Miri the start state goes through the Shift-JIS format (UTF-16 decoding is not Miri-clean)
    let unicode = unicode && !(cfg!(miri) && !parsed_start.is_empty());
    let fmt0 = if unicode { TextArchiveFormat::Unicode } else { TextArchiveFormat::ShiftJIS };
    let en = if be { Endian::Big } else { Endian::Little };
    let mut t = TextArchive::new(fmt0, en);
    c.sit(if unicode { "format_utf16" } else { "format_shift_jis" });
    let mut m = Model::default();
    if t.is_dirty() {
        c.fail("dirty", "new_dirty", "a new archive reports is_dirty() == true".to_string());
        return;
    }
    let mut hist = String::new();
    if !parsed_start.is_empty() {
        for (k, v) in parsed_start {
            t.set_message(k, v);
            m.set(k, v);
        }
        let re = c.lib("serialize + from_bytes (start state)", || -> Result<TextArchive, String> {
            let b = t.serialize().map_err(|e| e.to_string())?;
            TextArchive::from_bytes(&b, fmt0, en).map_err(|e| e.to_string())
        });
        match re {
            Some(Ok(p)) => t = p,
            Some(Err(e)) => {
                c.fail("parse", "start_state_roundtrip", format!("cannot serialize and re-parse the start state {:?}: {}", parsed_start, e));
                return;
            }
            None => return,
        }
        m.dirty = false;
        c.sit("history_from_parsed_archive");
        hist.push_str(&format!("<parsed {:?}>", parsed_start));
        if !compare(c, &t, &m, keys, &hist, false, false) {
            return;
        }
        if t.is_dirty() {
            c.fail("dirty", "parsed_dirty", "a freshly parsed archive reports is_dirty() == true".to_string());
            return;
        }
    }
    let mut had_delete = false;
    let mut readd = false;
    for op in ops {
        if !hist.is_empty() {
            hist.push_str("; ");
        }
        hist.push_str(&format!("{:?}", op));
        let prev_dirty = t.is_dirty();
        let mut was_set = false;
        let ok = c
            .lib(&format!("{:?}", op), || match op {
                TOp::Set(k, v) => {
                    t.set_message(k, v);
                }
                TOp::Delete(k) => {
                    t.delete_message(k);
                }
                TOp::GetSet(k) => {
                    if let Some(v) = t.get_message(k) {
                        t.set_message(k, &v);
                    }
                }
                TOp::SetTitle(s) => t.set_title(s.clone()),
                TOp::Has(k) => {
                    let _ = t.has_message(k);
                }
            })
            .is_some();
        if !ok {
            return;
        }
        match op {
            TOp::Set(k, v) => {
                if had_delete && m.pos(k).is_none() {
                    readd = true;
                }
                m.set(k, v);
                was_set = true;
            }
            TOp::Delete(k) => {
                if m.pos(k).is_some() {
                    had_delete = true;
                }
                m.delete(k)
            }
            TOp::GetSet(k) => {
                if let Some(v) = m.get(k) {
                    let before = m.entries.clone();
                    m.set(k, &v);
                    was_set = true;
                    if m.entries != before {
                        c.st.harness_errors.push(format!("escape model is not symmetric for {:?}", before));
                        return;
                    }
                }
            }
            TOp::SetTitle(s) => m.title = s.clone(),
            TOp::Has(_) => {}
        }
        if !compare(c, &t, &m, keys, &hist, prev_dirty, was_set) {
            return;
        }
    }
    if readd {
        c.sit("delete_then_readd");
    }
    if had_delete {
        c.sit("delete");
    }
    if roundtrip {
        // the legacy format can only carry Shift-JIS-domain text (and no title)
        if !unicode && !m.entries.iter().all(|(k, v)| crate::refs::strings::sjis_ok(k) && crate::refs::strings::sjis_ok(v)) {
            c.outcome("final_state_not_representable_in_legacy_format");
            return;
        }
        let content = c06::Content { unicode, be, title: if unicode { m.title.clone() } else { String::new() }, entries: m.entries.clone() };
        // the title goes through Shift-JIS in the file; histories only use ASCII titles
        c06::check_roundtrip(c, "final state of history", &t, &content);
    }
}

pub const REQUIRED: &[&str] = &["delete_then_readd", "delete", "exhaustive_histories", "random_histories", "history_from_parsed_archive", "format_utf16", "format_shift_jis", "more_than_64_keys", "more_than_65536_sets_on_one_archive"];

/// Messages far longer than the usual few characters: hundreds of characters over the escaping
/// alphabet (escape sequences at every byte offset, in particular across multiples of 256), or
/// more than 64 newlines / escape sequences in one message.
fn long_message(rng: &mut Rng, alphabet: &[char]) -> String {
    match rng.below(4) {
        0 => {
            // 65..300 newlines, raw or escaped, with short fillers
            let n = rng.range(65, 300);
            let esc = rng.bool();
            let mut s = String::new();
            for i in 0..n {
                if i % 3 == 0 {
                    s.push('a');
                }
                if esc {
                    s.push_str("\\n");
                } else {
                    s.push('\n');
                }
            }
            s
        }
        1 => {
            // an escape sequence placed exactly across a multiple of 256 bytes
            let at = rng.range(1, 4) * 256 - 1 - rng.below(2);
            let mut s = "a".repeat(at);
            s.push_str("\\n");
            s.push_str(&"b".repeat(rng.range(0, 300)));
            s
        }
        _ => {
            let n = rng.range(200, 900);
            (0..n).map(|_| *rng.pick(alphabet)).collect()
        }
    }
}

pub fn run(cx: &mut Ctx) {
    cx.require(REQUIRED);
    cx.rule = "bounded-exhaustive: keys {a,b,c} x values {\"x\", backslash-n, LF, backslash+LF} with the 18 operations set(k,v) / delete(k) / set(k,get(k)): every history of length <= 4 (quick) / <= 5 (thorough), model compared after every step; random histories of 20..300 operations over 1..12 keys (1 in 25: 300..700 operations over 66..260 keys) in either file format and endianness, with messages over the alphabet {backslash, n, LF, CR, a, hiragana a, yen sign, half-width katakana a}; every final state is serialized and re-read (C06 monitor). non-trivial = history containing a delete followed by a later set of a then-absent key; long messages (65..300 newlines, escapes across multiples of 256 bytes, 200..900 characters); one 70000-operation history (more than 65536 sets) per format; distinct by history hash".into();
    let keys: Vec<String> = ["a", "b", "c"].iter().map(|s| s.to_string()).collect();
    let vals: Vec<String> = ["x", "\\n", "\n", "\\\n"].iter().map(|s| s.to_string()).collect();
    let mut ops: Vec<TOp> = Vec::new();
    for k in &keys {
        for v in &vals {
            ops.push(TOp::Set(k.clone(), v.clone()));
        }
    }
    for k in &keys {
        ops.push(TOp::Delete(k.clone()));
    }
    for k in &keys {
        ops.push(TOp::GetSet(k.clone()));
    }
    let maxlen = if cfg!(miri) { 2 } else if cx.a.quick() { 4 } else { 5 };
    // one case per prefix of length min(2, len): keeps case count reasonable, each case enumerates its suffixes
    let nops = ops.len();
    for len in 1..=maxlen {
        let prefix_len = len.min(2);
        let nprefix = nops.pow(prefix_len as u32);
        for p in 0..nprefix {
            let ops_ref = &ops;
            let keys_ref = &keys;
            cx.case("exhaustive_histories", |c| {
                c.sit("exhaustive_histories");
                let suffix_len = len - prefix_len;
                let nsuffix = nops.pow(suffix_len as u32);
                let mut count = 0u64;
                for sfx in 0..nsuffix {
                    let mut h: Vec<TOp> = Vec::with_capacity(len);
                    let mut x = p;
                    for _ in 0..prefix_len {
                        h.push(ops_ref[x % nops].clone());
                        x /= nops;
                    }
                    let mut y = sfx;
                    for _ in 0..suffix_len {
                        h.push(ops_ref[y % nops].clone());
                        y /= nops;
                    }
                    // serialise+reparse only a sample of final states (cost), compare every step always
                    run_history(c, &h, keys_ref, sfx % 97 == 0);
                    let mut fp = fnv(&[len as u8]);
                    fp = fnv_add(fp, &(p as u64).to_le_bytes());
                    fp = fnv_add(fp, &(sfx as u64).to_le_bytes());
                    let has_del_then_set = {
                        let mut del = false;
                        let mut r = false;
                        for o in &h {
                            match o {
                                TOp::Delete(_) => del = true,
                                TOp::Set(..) if del => r = true,
                                _ => {}
                            }
                        }
                        r
                    };
                    if has_del_then_set {
                        c.nontrivial(fp);
                    }
                    count += 1;
                }
                c.eval(count);
                c.stat_add("exhaustive_histories", count as f64);
            });
        }
    }
    // the same operations on an archive that was parsed from bytes (dirty flag clear at the start)
    let start: Vec<(String, String)> = vec![("a".into(), "x".into()), ("b".into(), "\n".into())];
    let plen = if cfg!(miri) { 1 } else if cx.a.quick() { 3 } else { 4 };
    for len in 1..=plen {
        let n = nops.pow(len as u32);
        for chunk in 0..((n + 323) / 324) {
            let ops_ref = &ops;
            let keys_ref = &keys;
            let start_ref = &start;
            cx.case("exhaustive_histories_from_parsed", |c| {
                let mut count = 0u64;
                for code in (chunk * 324)..((chunk + 1) * 324).min(n) {
                    let mut h: Vec<TOp> = Vec::with_capacity(len);
                    let mut x = code;
                    for _ in 0..len {
                        h.push(ops_ref[x % nops].clone());
                        x /= nops;
                    }
                    run_history_from(c, &h, keys_ref, code % 53 == 0, start_ref);
                    count += 1;
                }
                c.eval(count);
                c.stat_add("exhaustive_histories_from_parsed", count as f64);
            });
        }
    }
    // one very long history on one key: more than 2^16 sets (counters behind the dirty flag)
    if !cfg!(miri) {
        for unicode in [false, true] {
            cx.case("more_than_65536_sets", |c| {
                c.sit("more_than_65536_sets_on_one_archive");
                let keys = vec!["k".to_string(), "j".to_string()];
                let h: Vec<TOp> = (0..70_000usize).map(|i| if i % 1000 == 999 { TOp::Delete("j".into()) } else { TOp::Set(keys[i % 2].clone(), format!("v{}", i % 7)) }).collect();
                c.eval(h.len() as u64);
                run_history_fmt(c, &h, &keys, true, &[], unicode, false);
            });
        }
    }
    // archives parsed from files the library did not write: one label per message (conforming), a
    // second label on some message, a message without any label. Whatever the parse yields, a parsed
    // archive is clean and its lookups are the escaped stored messages.
    for unicode in [false, true] {
        for be in [false, true] {
            cx.case("parsed_foreign_images", |c| {
                if cfg!(miri) && unicode {
                    return;
                }
                c.sit("parsed_reference_built_image");
                let fmt = if unicode { TextArchiveFormat::Unicode } else { TextArchiveFormat::ShiftJIS };
                let en = if be { Endian::Big } else { Endian::Little };
                let msgs = ["plain", "two\nlines", "literal \\n inside", "", "tail"];
                for variant in 0..5 {
                    let entries: Vec<(Vec<String>, String)> = msgs
                        .iter()
                        .enumerate()
                        .map(|(i, m)| {
                            let mut labels = vec![format!("MID_{}", i)];
                            match variant {
                                1 if i == 1 => labels.push("MID_ALIAS".into()),
                                2 if i == 4 => labels.clear(),
                                3 if i == 0 => labels.clear(),
                                4 => {
                                    if i == 2 {
                                        labels.push("MID_ALIAS".into())
                                    } else if i == 3 {
                                        labels.clear()
                                    }
                                }
                                _ => {}
                            }
                            (labels, m.to_string())
                        })
                        .collect();
                    let img = write_text_image(be, unicode, "title", &entries);
                    let img_t = crate::monitor::tight(&img);
                    let what = ["one label per message", "a second label on one message", "last message without a label", "first message without a label", "alias label and an unlabelled message"][variant];
                    match c.lib("TextArchive::from_bytes (reference-built image)", || TextArchive::from_bytes(&img_t, fmt, en)) {
                        Some(Ok(t)) => {
                            if t.is_dirty() {
                                c.fail("dirty", "parsed_dirty", format!("an archive parsed from a file with {} reports is_dirty() == true (format {:?}, {:?})", what, unicode, be));
                                return;
                            }
                            for (k, stored) in t.get_entries() {
                                let got = t.get_message(k);
                                if got.as_deref() != Some(escape(stored).as_str()) {
                                    c.fail("lookup", "lookup_escape", format!("parsed from a file with {}: get_message({:?}) = {:?}, stored {:?}", what, k, got, stored));
                                    return;
                                }
                            }
                            if variant == 0 {
                                let exp: Vec<(String, String)> = entries.iter().map(|(l, m)| (l[0].clone(), m.clone())).collect();
                                let got: Vec<(String, String)> = t.get_entries().iter().map(|(k, v)| (k.clone(), v.clone())).collect();
                                if got != exp {
                                    c.fail("parse", "foreign_image_content", format!("conforming reference-built file parses to {:?}, expected {:?}", got, exp));
                                }
                            }
                        }
                        Some(Err(e)) => {
                            if variant == 0 {
                                c.fail("parse", "foreign_image_refused", format!("conforming reference-built file refused: {}", e));
                            } else {
                                c.outcome("unusual_file_refused");
                            }
                        }
                        None => return,
                    }
                }
                c.eval(5);
            });
        }
    }
    // random
    let n = cx.a.n(60_000, 1_500_000);
    for _ in 0..n {
        cx.case("random_histories", |c| {
            c.sit("random_histories");
            let mut rng: Rng = c.rng.clone();
            let many = !cfg!(miri) && rng.chance(1, 25);
            let nk = if many { rng.range(66, 260) } else { rng.range(1, if cfg!(miri) { 3 } else { 12 }) };
            if many {
                c.sit("more_than_64_keys");
            }
            let mut keys: Vec<String> = (0..nk).map(|i| format!("key{}", i)).collect();
            if !many && rng.chance(1, 4) {
                // keys that collide once trimmed / case-folded (they are distinct keys)
                for k in ["key0 ", " key0", "KEY0", "key0\t"] {
                    if rng.bool() {
                        keys.push(k.to_string());
                    }
                }
            }
            // keys are arbitrary strings while the archive is in memory: look-alike characters that only
            // a file round trip through Shift-JIS would fold stay distinct keys (no file I/O in these histories)
            let lookalikes = !many && rng.chance(1, 8);
            if lookalikes {
                c.sit("keys_with_lookalike_characters");
                for k in ["k\u{2212}", "k\u{ff0d}", "k\u{203e}", "k~", "k\u{a5}", "k\\", "\u{2212}", "-", "caf\u{e9}", "cafe\u{301}"] {
                    if rng.chance(2, 3) {
                        keys.push(k.to_string());
                    }
                }
            }
            let nk = keys.len();
            let len = if cfg!(miri) { rng.range(5, 20) } else if many { rng.range(300, 700) } else { rng.range(20, 300) };
            let unicode = cfg!(miri) || rng.chance(2, 3);
            let be = rng.bool();
            let mut alphabet = vec!['\\', 'n', '\n', '\r', 'a', 'あ', '\u{a5}', 'ｱ', 'r', 't'];
            if unicode && !cfg!(miri) && rng.chance(1, 3) {
                // other line-breaking characters are ordinary text: only LF is escaped
                alphabet.extend(['\u{2028}', '\u{2029}', '\u{85}', '\u{b}', '\u{c}', '\u{feff}', '\u{fffe}']);
            }
            let mut h = Vec::new();
            for _ in 0..len {
                let k = rng.pick(&keys).clone();
                h.push(match rng.below(10) {
                    0 | 1 | 2 | 3 => {
                        let v: String = if !cfg!(miri) && rng.chance(1, 40) {
                            long_message(&mut rng, &alphabet)
                        } else {
                            let ml = rng.range(0, 8);
                            (0..ml).map(|_| *rng.pick(&alphabet)).collect()
                        };
                        TOp::Set(k, v)
                    }
                    4 | 5 => TOp::Delete(k),
                    6 | 7 => TOp::GetSet(k),
                    8 => TOp::SetTitle(format!("T{}", rng.below(100))),
                    _ => TOp::Has(k),
                });
            }
            let mut fp = fnv(b"rand");
            for o in &h {
                fp = fnv_add(fp, format!("{:?}", o).as_bytes());
            }
            c.nontrivial(fp);
            c.eval(len as u64);
            if lookalikes {
                run_history_fmt(c, &h, &keys, false, &[], unicode, be);
            } else if rng.bool() {
                let start: Vec<(String, String)> = keys.iter().take(rng.range(1, nk)).map(|k| (k.clone(), (0..rng.range(0, 5)).map(|_| *rng.pick(&alphabet)).collect())).collect();
                // start values must survive the file format of the start state
                // (under Miri a parsed start state always goes through the legacy format, see run_history_fmt)
                let start: Vec<(String, String)> = start.into_iter().map(|(k, v)| (k, if unicode && !cfg!(miri) { v } else { v.replace('\u{a5}', "y") })).collect();
                run_history_fmt(c, &h, &keys, true, &start, unicode, be);
            } else {
                run_history_fmt(c, &h, &keys, true, &[], unicode, be);
            }
            c.sample("random_history", || {
                J::obj(vec![
                    ("keys", J::U(nk as u64)),
                    ("ops_total", J::U(len as u64)),
                    ("first_ops", J::A(h.iter().take(8).map(|o| J::s(format!("{:?}", o))).collect())),
                    ("observed", J::s("get_entries order/values, has_message, get_message, title, dirty flag equal to the model after every operation; final state round-tripped")),
                ])
            });
        });
    }
}
