//! C08 / C09 — compression emits a valid stream that expands to the input.
use super::lzgen;
use crate::ctx::{Case, Ctx};
use crate::json::{hex_short, J};
use crate::monitor;
use crate::prng::fnv;
use crate::refs::lz::{self, Class, Tok};
use mila::{CompressionFormat, LZ10CompressionFormat, LZ13CompressionFormat};

#[derive(Clone, Copy, PartialEq, Eq, Debug)]
pub enum Fmt {
    Lz10,
    Lz13,
}

pub const ALLOC_CAP: usize = 1 << 31;

pub fn compress(c: &mut Case, fmt: Fmt, input: &[u8]) -> Option<Result<Vec<u8>, String>> {
    // exact-size private copy at a (usually) odd address: over-reads hit a red zone under the
    // sanitizer lanes, word loads through pointer casts trip the alignment checks
    let tight_copy = crate::monitor::tight(input);
    let input: &[u8] = &tight_copy;
    monitor::alloc_watch_begin(ALLOC_CAP);
    // both public entry points: the format struct, and the CompressionFormat enum that the
    // layered filesystem dispatches through (chosen by the parity of the input length)
    let via_enum = input.len() % 2 == 1;
    let call = || match (fmt, via_enum) {
        (Fmt::Lz10, false) => LZ10CompressionFormat {}.compress(input).map_err(|e| e.to_string()),
        (Fmt::Lz13, false) => LZ13CompressionFormat {}.compress(input).map_err(|e| e.to_string()),
        (Fmt::Lz10, true) => CompressionFormat::LZ10(LZ10CompressionFormat {}).compress(input).map_err(|e| e.to_string()),
        (Fmt::Lz13, true) => CompressionFormat::LZ13(LZ13CompressionFormat {}).compress(input).map_err(|e| e.to_string()),
    };
    let what = if fmt == Fmt::Lz10 { "LZ10 compress" } else { "LZ13 compress" };
    // small inputs (and every fourth case, unless the input is larger than 1 MiB - the multi-megabyte
    // inputs of the thorough tier take most of the per-case CPU budget once) are compressed twice,
    // under two heap poison bytes
    let r = if input.len() <= 4096 || (c.idx % 4 == 0 && input.len() <= (1 << 20)) { c.lib_stable(what, call) } else { c.lib(what, call) };
    if input.len() <= 2048 {
        // the other public entry point must give the very same bytes
        let other = c.lib("compress (other entry point)", || match (fmt, !via_enum) {
            (Fmt::Lz10, false) => LZ10CompressionFormat {}.compress(input).map_err(|e| e.to_string()),
            (Fmt::Lz13, false) => LZ13CompressionFormat {}.compress(input).map_err(|e| e.to_string()),
            (Fmt::Lz10, true) => CompressionFormat::LZ10(LZ10CompressionFormat {}).compress(input).map_err(|e| e.to_string()),
            (Fmt::Lz13, true) => CompressionFormat::LZ13(LZ13CompressionFormat {}).compress(input).map_err(|e| e.to_string()),
        });
        if let (Some(a), Some(b)) = (&r, &other) {
            if a != b {
                c.fail("two_routes", "compress_entry_points_differ", format!("{}: the format struct and the CompressionFormat enum return different results for the same {}-byte input {}", what, input.len(), hex_short(input, 48)));
            }
        }
    }
    monitor::alloc_watch_end();
    r
}

pub fn decompress(c: &mut Case, fmt: Fmt, stream: &[u8]) -> Option<Result<Vec<u8>, String>> {
    let tight_copy = crate::monitor::tight(stream);
    let stream: &[u8] = &tight_copy;
    c.lib_stable(if fmt == Fmt::Lz10 { "LZ10 decompress" } else { "LZ13 decompress" }, || match fmt {
        Fmt::Lz10 => LZ10CompressionFormat {}.decompress(stream).map_err(|e| e.to_string()),
        Fmt::Lz13 => LZ13CompressionFormat {}.decompress(stream).map_err(|e| e.to_string()),
    })
}

/// The stream monitor shared by C08 and C09. Returns the parsed stream for statistics.
pub fn check_compress(c: &mut Case, fmt: Fmt, input: &[u8], desc: &str) -> Option<lz::Expanded> {
    let name = if fmt == Fmt::Lz10 { "LZ10" } else { "LZ13" };
    let show = || format!("{} input {} bytes [{}] {}", name, input.len(), desc, hex_short(input, 64));
    let out = match compress(c, fmt, input)? {
        Err(e) => {
            c.fail("compress_err", "compress_err", format!("{}: compress returned Err({})", show(), e));
            return None;
        }
        Ok(o) => o,
    };
    let inner: &[u8] = match fmt {
        Fmt::Lz10 => &out,
        Fmt::Lz13 => {
            if out.len() < 8 || out[0] != 0x13 {
                c.fail("wrapper", "wrapper", format!("{}: output does not start with a 4-byte 0x13 wrapper: {}", show(), hex_short(&out, 48)));
                return None;
            }
            &out[4..]
        }
    };
    let want_kind = if fmt == Fmt::Lz10 { 0x10 } else { 0x11 };
    if inner.is_empty() || inner[0] != want_kind {
        c.fail("type_byte", "type_byte", format!("{}: stream type byte is {:#x?}, expected {:#x}", show(), inner.first(), want_kind));
        return None;
    }
    let e = lz::expand(inner, input.len() + 1);
    if e.declared != input.len() {
        c.fail("header_length", "header_length", format!("{}: header declares {} bytes", show(), e.declared));
        return Some(e);
    }
    if e.class != Class::Conforming {
        c.fail(
            "malformed_stream",
            &format!("malformed_stream:{}", e.class.name()),
            format!("{}: emitted stream is not well-formed ({}, token #{:?} = {:?}, {} of {} bytes consumed): {}", show(), e.class.name(), e.bad_token, e.bad_token.map(|i| e.tokens[i]), e.consumed, inner.len(), hex_short(&out, 96)),
        );
        return Some(e);
    }
    let (lo, hi) = if fmt == Fmt::Lz10 { (3, 18) } else { (3, 65808) };
    for (i, t) in e.tokens.iter().enumerate() {
        if let Tok::Ref(len, disp) = t {
            if *len < lo || *len > hi || *disp < 1 || *disp > 4096 {
                c.fail("illegal_reference", "illegal_reference", format!("{}: token #{} = {:?} outside the format's limits", show(), i, t));
                return Some(e);
            }
        }
    }
    if e.out != input {
        let i = e.out.iter().zip(input.iter()).position(|(a, b)| a != b).unwrap_or(e.out.len().min(input.len()));
        c.fail("wrong_expansion", "wrong_expansion_reference", format!("{}: independent decoder expands the stream to different data (first difference at byte {}); stream={}", show(), i, hex_short(&out, 96)));
        return Some(e);
    }
    match decompress(c, fmt, &out) {
        None => {}
        Some(Err(err)) => c.fail("wrong_expansion", "own_decompress_err", format!("{}: the library's own decompress rejects the stream: {}", show(), err)),
        Some(Ok(back)) => {
            if back != input {
                c.fail("wrong_expansion", "wrong_expansion_library", format!("{}: decompress(compress(x)) != x", show()));
            }
        }
    }
    // statistics
    let mut nref = 0;
    let mut nlit = 0;
    for t in &e.tokens {
        match t {
            Tok::Lit(_) => nlit += 1,
            Tok::Ref(len, disp) => {
                nref += 1;
                if *disp == 4096 {
                    c.sit("ref_disp_4096");
                }
                if *disp == 1 {
                    c.sit("ref_disp_1");
                }
                if disp < len {
                    c.sit("ref_overlapping");
                }
                if fmt == Fmt::Lz10 && *len == 18 {
                    c.sit("ref_len_18");
                }
                if fmt == Fmt::Lz13 {
                    if *len <= 16 {
                        c.sit("lz11_form_2byte");
                    } else if *len <= 272 {
                        c.sit("lz11_form_3byte");
                    } else {
                        c.sit("lz11_form_4byte");
                    }
                    if *len == 4096 {
                        c.sit("lz11_len_4096_cap");
                    }
                    if *len == 16 || *len == 17 || *len == 272 || *len == 273 {
                        c.sit("lz11_form_boundary_length");
                    }
                }
            }
        }
    }
    if e.tokens.len() % 8 != 0 && !e.tokens.is_empty() {
        c.sit("ends_inside_flag_group");
    }
    c.stat_add("references_seen", nref as f64);
    c.stat_add("literals_seen", nlit as f64);
    let forms_used = e.forms.iter().filter(|x| **x > 0).count();
    let nontrivial = if fmt == Fmt::Lz10 { nref >= 1 && nlit >= 1 } else { (forms_used >= 2 || e.tokens.len() % 8 != 0) && nref >= 1 };
    if nontrivial {
        c.nontrivial(fnv(input));
    }
    if nref > 0 {
        c.sample(desc.split('(').next().unwrap_or("input"), || {
            J::obj(vec![
                ("format", J::s(name)),
                ("family", J::s(desc)),
                ("input_len", J::U(input.len() as u64)),
                ("input_hex", J::s(hex_short(input, 48))),
                ("stream_hex", J::s(hex_short(&out, 64))),
                ("tokens", J::U(e.tokens.len() as u64)),
                ("references", J::U(nref as u64)),
                ("first_tokens", J::s(format!("{:?}", &e.tokens[..e.tokens.len().min(10)]))),
                ("observed", J::s("reference decoder: every token legal, expands to the input, no bytes left over; library decompress agrees")),
            ])
        });
    }
    Some(e)
}

pub fn run_generic(cx: &mut Ctx, fmt: Fmt) {
    let miri = cfg!(miri);
    // exhaustive over small alphabets
    let (b2, b3) = if miri { (6, 4) } else if cx.a.quick() { (14, 9) } else { (16, 10) };
    for (k, maxlen) in [(2usize, b2), (3usize, b3)] {
        let mut chunks: Vec<Vec<Vec<u8>>> = Vec::new();
        lzgen::small_alphabet_chunks(k, maxlen, 512, |_, ch| chunks.push(ch.to_vec()));
        for ch in chunks {
            cx.case("small_alphabet_exhaustive", |c| {
                c.sit("small_alphabet_exhaustive");
                let mut n = 0u64;
                for inp in &ch {
                    if inp.is_empty() && fmt == Fmt::Lz13 {
                        continue; // C09: the empty input has its own case
                    }
                    check_compress(c, fmt, inp, "small_alphabet");
                    n += 1;
                }
                c.eval(n);
            });
        }
    }
    // directed: lengths around the 8-token and 18-byte / 16,17,272,273,4096 boundaries
    let lens: Vec<usize> = if miri { vec![1, 8, 9, 19, 40] } else { (0..=40).chain([271, 272, 273, 274, 275, 4095, 4096, 4097, 4098, 4099, 4100, 4113, 4114, 8192, 8193, 8194, 8195, 8210, 12289, 12290, 12291, 16385, 16386, 65537, 65538, 65539, 65540, 65541, 65542, 131075, 131076, 131077]).collect() };
    for &n in &lens {
        if n == 0 && fmt == Fmt::Lz13 {
            continue;
        }
        cx.case("boundary_lengths", |c| {
            c.sit("boundary_lengths");
            check_compress(c, fmt, &vec![0u8; n], "zeros");
            check_compress(c, fmt, &lzgen::periodic(&[1, 2, 3], n), "periodic(p=3)");
            let ramp: Vec<u8> = (0..n).map(|i| (i % 251) as u8).collect();
            check_compress(c, fmt, &ramp, "ramp(p=251)");
            // the same run lengths in 0xFF bytes and after a non-repeating head (repeat length n - k)
            check_compress(c, fmt, &vec![0xFFu8; n], "run of 0xFF");
            let mut headed: Vec<u8> = vec![0x12, 0xFF, 0xFF, 0x34, 0x80];
            headed.extend(std::iter::repeat(0x80u8).take(n));
            check_compress(c, fmt, &headed, "head + run of 0x80");
            c.eval(5);
        });
    }
    if !miri {
        for p in [4094usize, 4095, 4096, 4097, 4098] {
            cx.case("window_edge_period", |c| {
                c.sit("window_edge_period");
                let mut rng = crate::prng::Rng::new(p as u64);
                let pat = rng.bytes(p);
                check_compress(c, fmt, &lzgen::periodic(&pat, 2 * p + 50), &format!("periodic(p={})", p));
            });
        }
        cx.case("de_bruijn", |c| {
            c.sit("incompressible_de_bruijn");
            check_compress(c, fmt, &lzgen::de_bruijn(11), "de_bruijn(2,11)");
        });
    }
    if !miri {
        // lengths around multiples of 64 KiB (every byte of the 24-bit length field matters), with a
        // poorly compressible tail so that the compressed size stays in a different 64 KiB bracket
        for &n in &[65_400usize, 65_535, 65_536, 65_537, 131_071, 131_072, 196_700] {
            cx.case("around_64KiB_multiples", |c| {
                c.sit("around_64KiB_multiples");
                let mut rng = crate::prng::Rng::new(n as u64);
                let pat = rng.bytes(7);
                let tail = 3000 + (n % 2500);
                let mut v = lzgen::periodic(&pat, n - tail);
                v.extend(rng.bytes(tail));
                check_compress(c, fmt, &v, &format!("periodic(p=7)+random tail, n={}", n));
            });
        }
    }
    if !miri {
        // a stretch of more than 64 KiB without any 3-byte repeat inside the window (a stream of
        // 16-bit counters), after 0..7 other tokens and followed by compressible data
        let prefixes: &[usize] = if cx.a.quick() { &[0, 3, 6] } else { &[0, 1, 2, 3, 4, 5, 6, 7] };
        for &pre in prefixes {
            cx.case("long_match_free_stretch", |c| {
                c.sit("match_free_stretch_over_64KiB");
                // `pre` distinct bytes and a short run (one literal + one reference) first, so that the
                // long literal stretch starts at a token index that is not a multiple of 8
                let mut v: Vec<u8> = (0..pre).map(|i| 0xF0 + i as u8).collect();
                v.extend(std::iter::repeat(0x41u8).take(20));
                for i in 0..(33_500u32 + 7 * pre as u32) {
                    v.extend_from_slice(&(i as u16).to_be_bytes());
                }
                v.extend(std::iter::repeat(0x41u8).take(40 + pre));
                v.extend_from_slice(b"tail");
                check_compress(c, fmt, &v, &format!("{} bytes + run of 20 + 16-bit counters (no repeat for > 64 KiB) + run", pre));
            });
        }
        // a block that comes back 65536 + d bytes later (d inside the window) with nothing but zeros
        // in between; and a quarter of a megabyte of word-structured text with one very common trigram
        cx.case("block_repeated_64KiB_plus_d_later", |c| {
            c.sit("block_repeated_64KiB_plus_d_later");
            let mut rng = crate::prng::Rng::new(0xB10C);
            for d in [2usize, 3, 24, 100, 1000, 4095, 4096] {
                for k in [1usize, 2] {
                    let block = rng.bytes(24);
                    let mut v = block.clone();
                    v.resize(65536 * k + d, 0);
                    v.extend_from_slice(&block);
                    v.extend_from_slice(b"end");
                    check_compress(c, fmt, &v, &format!("24-byte block, zeros, the same block {} bytes later", 65536 * k + d));
                }
            }
        });
        cx.case("text_with_one_very_common_trigram", |c| {
            c.sit("text_with_one_very_common_trigram");
            let mut rng = crate::prng::Rng::new(0x7E87);
            let mut v: Vec<u8> = Vec::with_capacity(260_000);
            while v.len() < 250_000 {
                v.extend_from_slice(b"ABC");
                v.push(rng.u8());
                v.push(rng.u8());
            }
            check_compress(c, fmt, &v, "50 000 x ('ABC' + 2 random bytes)");
        });
        // two large inputs of equal length compressed one after the other, differing only in a few
        // bytes deep inside: each call's output depends on its own input alone
        cx.case("similar_large_inputs_back_to_back", |c| {
            c.sit("similar_large_inputs_back_to_back");
            let mut rng = crate::prng::Rng::new(0x51A1);
            let pat = rng.bytes(700);
            let mut a = lzgen::periodic(&pat, 100_000);
            for k in 0..200 {
                let at = rng.below(a.len());
                a[at] = k as u8;
            }
            let mut b = a.clone();
            for at in [33_001usize, 45_001, 50_003, 66_666] {
                b[at] ^= 0x5A;
            }
            check_compress(c, fmt, &a, "large input A");
            check_compress(c, fmt, &b, "large input B = A with 4 bytes changed in the middle, right after A");
            check_compress(c, fmt, &a, "large input A again, right after B");
            let mut d = a.clone();
            d[99_999 - 40_000] ^= 1;
            check_compress(c, fmt, &d, "A with one bit changed, right after A");
        });
    }
    // expanding a file someone else compressed (not the canonical stream, zero-padded to a multiple
    // of four as retail files are), then compressing exactly those bytes again in the same process
    for k in 0..(if miri { 1 } else { 12 }) {
        cx.case("compress_after_expanding_a_foreign_stream", |c| {
            c.sit("compress_after_expanding_a_foreign_stream");
            let mut rng = c.rng.clone();
            let kind = if fmt == Fmt::Lz10 { crate::refs::lz::Kind::Lz10 } else { crate::refs::lz::Kind::Lz11 };
            let (t, d) = crate::refs::lz::gen_tokens(&mut rng, kind, if miri { 30 } else { 400 });
            c.rng = rng;
            if d.is_empty() {
                return;
            }
            let mut s = crate::refs::lz::encode(kind, &t, d.len());
            if k % 2 == 0 {
                while s.len() % 4 != 0 {
                    s.push(0);
                }
            }
            let s = if fmt == Fmt::Lz13 { crate::refs::lz::wrap13(&s) } else { s };
            let _ = decompress(c, fmt, &s);
            check_compress(c, fmt, &d, "the data of a foreign stream that was expanded just before");
        });
    }
    // inputs that are themselves compressed streams (an already-compressed file compressed again)
    for k in 0..(if miri { 2 } else { 24 }) {
        cx.case("inputs_that_are_streams", |c| {
            c.sit("input_is_itself_a_compressed_stream");
            let mut rng = c.rng.clone();
            let (inner, _) = lzgen::gen_input(&mut rng, if miri { 40 } else { 600 });
            // the library's own output for both formats, and reference-encoded streams
            for f2 in [Fmt::Lz10, Fmt::Lz13] {
                if inner.is_empty() && f2 == Fmt::Lz13 {
                    continue;
                }
                if let Some(Ok(s)) = compress(c, f2, &inner) {
                    check_compress(c, fmt, &s, "the library's own compressed stream as input");
                    if let Some(Ok(s2)) = compress(c, fmt, &s) {
                        check_compress(c, fmt, &s2, "a twice-compressed stream as input");
                    }
                }
            }
            let kind = if k % 2 == 0 { crate::refs::lz::Kind::Lz10 } else { crate::refs::lz::Kind::Lz11 };
            let (t, d) = crate::refs::lz::gen_tokens(&mut rng, kind, if miri { 30 } else { 300 });
            let bare = crate::refs::lz::encode(kind, &t, d.len());
            check_compress(c, fmt, &bare, "a reference-encoded stream as input");
            check_compress(c, fmt, &crate::refs::lz::wrap13(&bare), "a 0x13-wrapped stream as input");
            check_compress(c, fmt, &crate::refs::lz::stored(&d), "a stored-form file as input");
            for fixed in [&[0x10u8, 0, 0, 0][..], &[0x10, 0, 0, 0, 0, 0][..], &[0x11, 0, 0, 0, 0, 0, 0, 0][..], &[0x13, 4, 0, 0, 0x11, 4, 0, 0, 0, b'a', b'b', b'c', b'd'][..], &[0x10, 4, 0, 0, 0, b'a', b'b', b'c', b'd'][..], &[0x00, 4, 0, 0, b'a', b'b', b'c', b'd'][..]] {
                check_compress(c, fmt, fixed, "a tiny hand-written stream as input");
            }
        });
    }
    if !miri && cx.a.scale >= 0.49 {
        // calls outside the domain (16 MiB and more; for LZ13 also the empty input) must not leave
        // anything behind that changes the next ordinary call
        cx.case("ordinary_calls_after_out_of_domain_calls", |c| {
            c.sit("ordinary_calls_after_out_of_domain_calls");
            let big = vec![0u8; 1 << 24];
            let _ = compress(c, fmt, &big);
            let mut odd = big;
            odd.push(1);
            let _ = compress(c, fmt, &odd);
            drop(odd);
            for probe in [&b"abcdefgh"[..], &b"abcdefghijklmnop"[..], &b"abcabcabcabcabcabcabcx"[..], &b"z"[..]] {
                check_compress(c, fmt, probe, "after an oversize call");
            }
            if fmt == Fmt::Lz13 {
                let _ = compress(c, fmt, &[]);
                for probe in [&b"abcdefgh"[..], &b"0123456789abcdef"[..], &b"q"[..]] {
                    check_compress(c, fmt, probe, "after the empty input");
                }
            }
        });
        // the largest input the 24-bit length field can describe
        cx.case("largest_input_2^24-1", |c| {
            c.sit("largest_input");
            check_compress(c, fmt, &vec![0u8; (1 << 24) - 1], "zeros(2^24-1)");
            // the same length with an incompressible tail (the compressed size and the 0x13 wrapper's
            // size field then differ from the all-zero case)
            let mut v = vec![0u8; (1 << 24) - 1];
            let n = v.len();
            for (i, b) in [1u8, 2, 3, 4, 5, 250, 7, 99].iter().enumerate() {
                v[n - 8 + i] = *b;
            }
            check_compress(c, fmt, &v, "zeros(2^24-9) + 8 distinct bytes");
        });
    }
    if !miri && cx.a.scale >= 0.49 {
        // the largest length again, periodic with periods 7 and 15 (the number of tokens, and with it
        // the fill of the last flag group and the size the 0x13 wrapper announces, differs from the
        // all-zero case)
        for p in [7usize, 15] {
            cx.case("largest_input_periodic", |c| {
                c.sit("largest_input");
                let pat: Vec<u8> = (0..p).map(|i| (i as u8).wrapping_mul(37).wrapping_add(11)).collect();
                check_compress(c, fmt, &lzgen::periodic(&pat, (1 << 24) - 1), &format!("periodic(p={}), n = 2^24-1", p));
            });
        }
    }
    if !cx.a.quick() && !miri && cx.a.scale >= 0.99 {
        if fmt == Fmt::Lz10 {
            // (LZ10 only: the same input costs LZ13 more than the per-case CPU budget)
            // more than 4 MiB of word-structured text: short matches nearby, longer ones further back
            cx.case("large_text_like_4MiB", |c| {
                c.sit("large_input");
                let mut rng = crate::prng::Rng::new(44);
                let mut v: Vec<u8> = Vec::with_capacity(4_300_000);
                let mut phrases: Vec<Vec<u8>> = Vec::new();
                while v.len() < 4_300_000 {
                    if !phrases.is_empty() && rng.chance(1, 3) {
                        let ph = rng.pick(&phrases).clone();
                        v.extend(ph);
                    } else {
                        let l = rng.range(3, 24);
                        let ph: Vec<u8> = (0..l).map(|_| b'a' + rng.below(6) as u8).collect();
                        v.extend(&ph);
                        if phrases.len() < 3000 {
                            phrases.push(ph);
                        } else {
                            let k = rng.below(3000);
                            phrases[k] = ph;
                        }
                    }
                }
                check_compress(c, fmt, &v, "text-like, 4.3 MB");
            });
        }
        cx.case("large_periodic_4MiB", |c| {
            c.sit("large_input");
            let mut rng = crate::prng::Rng::new(4);
            let pat = rng.bytes(1000);
            check_compress(c, fmt, &lzgen::periodic(&pat, 4 << 20), "periodic(p=1000, 4MiB)");
        });
    }
    // structured random
    let n = cx.a.n(250_000, 1_500_000);
    let quick = cx.a.quick();
    for i in 0..n {
        cx.case("structured_random", |c| {
            let mut rng = c.rng.clone();
            let max_len = if miri {
                48
            } else if i % 50 == 0 {
                if quick {
                    16 << 10
                } else {
                    64 << 10
                }
            } else {
                2048
            };
            let (inp, desc) = lzgen::gen_input(&mut rng, max_len);
            if inp.is_empty() && fmt == Fmt::Lz13 {
                return;
            }
            check_compress(c, fmt, &inp, &desc);
        });
    }
}

pub const REQUIRED: &[&str] = &["small_alphabet_exhaustive", "boundary_lengths", "ref_disp_4096", "ref_overlapping", "ref_len_18", "ends_inside_flag_group", "window_edge_period", "largest_input", "around_64KiB_multiples", "ordinary_calls_after_out_of_domain_calls"];

pub fn run(cx: &mut Ctx) {
    if !cfg!(miri) {
        cx.require(REQUIRED);
    }
    cx.rule = "exhaustive: all strings over {0,1} up to length 14 (quick) / 16 (thorough) and over {0,1,2} up to 9 / 10; directed lengths around the 8-token and 18-byte boundaries and periods 4094..=4098; structured random inputs (runs, periodic incl. window-edge periods, interleaved periods, copy-with-noise at distances 1,2,3,17,18,19,4095,4096,4097, incompressible, text-like, low-entropy); thorough adds 2^24-1 zero bytes and a 4 MiB periodic input. Every output is parsed token by token by the reference decoder (type byte, 24-bit length, reference legality, exact end, no leftover) and expanded by both decoders. non-trivial = stream with >=1 back-reference and >=1 literal; distinct by input hash".into();
    run_generic(cx, Fmt::Lz10);
}
