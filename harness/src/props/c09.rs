//! C09 — LZ13 compression emits a valid wrapped LZ11 stream; never panics or aborts (empty input included).
use super::c08::{self, Fmt};
use crate::ctx::Ctx;
use crate::json::{hex_short, J};

pub const REQUIRED: &[&str] = &[
    "empty_input",
    "small_alphabet_exhaustive",
    "boundary_lengths",
    "lz11_form_2byte",
    "lz11_form_3byte",
    "lz11_form_4byte",
    "lz11_len_4096_cap",
    "lz11_form_boundary_length",
    "ref_disp_4096",
    "ends_inside_flag_group",
    "window_edge_period",
    "largest_input",
    "around_64KiB_multiples",
    "ordinary_calls_after_out_of_domain_calls",
];

pub fn run(cx: &mut Ctx) {
    if !cfg!(miri) {
        cx.require(REQUIRED);
    } else {
        cx.require(&["empty_input"]);
    }
    cx.rule = "as C08 for the format 0x13-wrapper + LZ11, plus inputs forcing each LZ11 length form (matches of exactly 16, 17, 272, 273, 4095, 4096 and longer than the 4096 cap) and the empty input, which runs as its own case so that a process abort (allocator failure escapes catch_unwind) is attributed to it by the supervisor. non-trivial = stream using >=2 reference forms or ending inside a flag group; distinct by input hash".into();
    // The empty input: must return Ok or Err; if Ok, and the library can expand it, it must expand to nothing.
    cx.case("empty_input", |c| {
        c.sit("empty_input");
        match c08::compress(c, Fmt::Lz13, &[]) {
            None => {}
            Some(Err(_)) => c.outcome("empty_input_err"),
            Some(Ok(out)) => {
                c.outcome("empty_input_ok");
                if let Some(Ok(back)) = c08::decompress(c, Fmt::Lz13, &out) {
                    if !back.is_empty() {
                        c.fail("wrong_expansion", "empty_roundtrip", format!("compress(&[]) = {} expands to {} bytes", hex_short(&out, 32), back.len()));
                    }
                }
                c.sample("empty_input", || J::obj(vec![("input", J::s("")), ("stream_hex", J::s(hex_short(&out, 32))), ("observed", J::s("returned Ok without panic/abort"))]));
            }
        }
    });
    c08::run_generic(cx, Fmt::Lz13);
}
