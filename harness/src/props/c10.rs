//! C10 — compressed size is bounded and repetition is actually exploited.
use super::c08::{compress, Fmt};
use super::lzgen;
use crate::ctx::{Case, Ctx};
use crate::json::{hex_short, J};
use crate::prng::{fnv, Rng};

fn header(fmt: Fmt) -> usize {
    if fmt == Fmt::Lz10 {
        4
    } else {
        8
    }
}

fn ceil_div(a: usize, b: usize) -> usize {
    (a + b - 1) / b
}

pub fn expansion_bound(fmt: Fmt, n: usize) -> usize {
    header(fmt) + n + ceil_div(n, 8)
}

/// Effectiveness bound for an input of n bytes with period p <= 4096
pub fn periodic_bound(fmt: Fmt, n: usize, p: usize) -> usize {
    let (r, m) = if fmt == Fmt::Lz10 { (2usize, 18usize) } else { (4usize, 4096usize) };
    let l = n.min(p + 2);
    let refs = if n > p { ceil_div(n - p, m) + 1 } else { 0 };
    header(fmt) + l + refs * r + ceil_div(l + refs, 8)
}

fn check_expansion(c: &mut Case, fmt: Fmt, input: &[u8], desc: &str) {
    if let Some(Ok(out)) = compress(c, fmt, input) {
        let bound = expansion_bound(fmt, input.len());
        c.stat_max(if fmt == Fmt::Lz10 { "lz10_worst_expansion_slack" } else { "lz13_worst_expansion_slack" }, out.len() as f64 - bound as f64);
        if out.len() > bound {
            c.fail(
                "expansion",
                "expansion_bound",
                format!("{:?} output of {} bytes exceeds header + n + ceil(n/8) = {} for n = {} [{}] input={}", fmt, out.len(), bound, input.len(), desc, hex_short(input, 64)),
            );
        }
        if out.len() == bound {
            c.stat_add("expansion_bound_met_with_equality", 1.0);
        }
    }
}

fn check_periodic(c: &mut Case, fmt: Fmt, pat: &[u8], n: usize, what: &str) {
    let p = pat.len();
    let input = lzgen::periodic(pat, n);
    if input.is_empty() {
        return;
    }
    if let Some(Ok(out)) = compress(c, fmt, &input) {
        let bound = periodic_bound(fmt, n, p).min(expansion_bound(fmt, n));
        let key = if fmt == Fmt::Lz10 { "lz10_worst_periodic_slack" } else { "lz13_worst_periodic_slack" };
        c.stat_max(key, out.len() as f64 - bound as f64);
        if out.len() == bound {
            c.stat_add("periodic_bound_met_with_equality", 1.0);
        }
        if out.len() > bound {
            c.fail(
                "ineffective",
                "periodic_bound",
                format!("{:?}: input of n = {} bytes with period p = {} ({}) compressed to {} bytes, more than the bound {} (p+2 literals, ceil((n-p)/L)+1 references)", fmt, n, p, what, out.len(), bound),
            );
        }
        if n >= p + 3 {
            c.nontrivial(fnv(&input) ^ fmt as u64);
        }
        if n >= p + 100 {
            c.sample(if fmt == Fmt::Lz10 { "lz10_periodic" } else { "lz13_periodic" }, || {
                J::obj(vec![
                    ("format", J::s(format!("{:?}", fmt))),
                    ("period", J::U(p as u64)),
                    ("n", J::U(n as u64)),
                    ("pattern", J::s(what)),
                    ("compressed_len", J::U(out.len() as u64)),
                    ("bound", J::U(bound as u64)),
                ])
            });
        }
    }
}

fn pattern(kind: usize, p: usize, rng: &mut Rng) -> (Vec<u8>, &'static str) {
    match kind {
        3 => {
            // random bytes with an embedded run of equal bytes (period is still p)
            let mut v = rng.bytes(p);
            if p >= 12 {
                let at = rng.below(p - 8);
                for k in 0..6 {
                    v[at + k] = 0xAA;
                }
            }
            (v, "random bytes with a 6-byte run")
        }
        6 => {
            // random bytes that begin like a compressed file of one of the formats (type byte, size, second type byte)
            let mut v = rng.bytes(p);
            let head: &[u8] = *rng.pick(&[&[0x13u8, 0x00, 0x02, 0x40, 0x11, 0x00, 0x10, 0x00][..], &[0x10, 0x00, 0x10, 0x00][..], &[0x11, 0x00, 0x10, 0x00][..], &[0x00, 0x00, 0x10, 0x00][..], &[0x13, 0x04, 0x00, 0x00, 0x11][..]]);
            let n = head.len().min(p);
            v[..n].copy_from_slice(&head[..n]);
            (v, "random bytes beginning like a compressed file")
        }
        7 => {
            // random bytes in which a stretch of at least 273 bytes (a third of the period) occurs twice
            // close together: an inner repeat that is long, but far shorter than the period, and whose
            // first copy in the previous period is still inside the window for p up to about 3000
            let mut v = rng.bytes(p);
            if p >= 900 {
                let l = (p / 3).max(273);
                let a = rng.below(16);
                let b = a + l + rng.below(32);
                let seg: Vec<u8> = v[a..a + l].to_vec();
                v[b..b + l].copy_from_slice(&seg);
            }
            (v, "random bytes with an inner repeat of a third of the period")
        }
        4 => ((0..p).map(|_| rng.below(2) as u8 * 0x55).collect(), "dense two-symbol random"),
        5 => ((0..p).map(|_| rng.below(4) as u8 + 0x40).collect(), "dense four-symbol random"),
        0 => (rng.bytes(p), "random bytes"),
        1 => {
            // two-symbol pattern that still has exact period p: a single 1 followed by zeros
            let mut v = vec![0u8; p];
            v[0] = 1;
            (v, "two-symbol (one 1, then zeros)")
        }
        _ => ((0..p).map(|i| (i % 256) as u8 ^ ((i / 256) as u8).wrapping_mul(31)).collect(), "ramp"),
    }
}

pub const REQUIRED: &[&str] = &["expansion_incompressible", "periods_small", "periods_window_edge", "all_periods_light", "long_inputs_and_runs"];

pub fn run(cx: &mut Ctx) {
    cx.require(REQUIRED);
    cx.rule = "expansion bound on every generated input (C08/C09 families, random and de Bruijn sequences); effectiveness bound on periodic inputs: periods {1..=40} u {4080..=4096} u 64 random (quick) / all 1..=4096 (thorough) x pattern {random bytes, two-symbol, ramp, random with an embedded 6-byte run, dense two-symbol random, dense four-symbol random, random bytes beginning like a compressed file} x n in {p,p+1,p+2,p+3,p+17,p+18,p+19,2p+5,3p+1,p+4095,p+4096,p+4097,20000}, both formats; plus every period 1..=4096 once with n = 3p+1 (both tiers) and inputs of 70-140 KB / many periods. Oracle = the two closed-form bounds of the statement. non-trivial = periodic case with n >= p+3; distinct by input hash".into();
    let miri = cfg!(miri);
    // expansion bound
    let n = cx.a.n(10_000, 200_000);
    for i in 0..n {
        cx.case("expansion", |c| {
            let mut rng = c.rng.clone();
            let (inp, desc) = if i % 3 == 0 {
                c.sit("expansion_incompressible");
                let l = if miri { rng.range(0, 40) } else { rng.skewed(4096) };
                (rng.bytes(l), "random".to_string())
            } else {
                lzgen::gen_input(&mut rng, if miri { 48 } else { 4096 })
            };
            check_expansion(c, Fmt::Lz10, &inp, &desc);
            if !inp.is_empty() {
                check_expansion(c, Fmt::Lz13, &inp, &desc);
            }
            c.eval(1);
        });
    }
    cx.case("expansion_after_empty_input", |c| {
        // the size bounds hold for every call, whatever was compressed before (incl. the empty input)
        let _ = compress(c, Fmt::Lz13, &[]);
        check_expansion(c, Fmt::Lz13, b"0123456789abcdef", "16 distinct bytes after the empty input");
        let _ = compress(c, Fmt::Lz10, &[]);
        check_expansion(c, Fmt::Lz10, b"0123456789abcdef", "16 distinct bytes after the empty input");
        check_expansion(c, Fmt::Lz10, &[], "the empty input");
        let _ = compress(c, Fmt::Lz13, &[]);
        check_expansion(c, Fmt::Lz13, b"01234567", "8 distinct bytes after the empty input");
    });
    if !miri {
        for k in 4..=13 {
            cx.case("expansion_de_bruijn", |c| {
                c.sit("expansion_incompressible");
                let s = lzgen::de_bruijn(k);
                check_expansion(c, Fmt::Lz10, &s, "de_bruijn");
                check_expansion(c, Fmt::Lz13, &s, "de_bruijn");
            });
        }
    }
    // every period once, light: one random pattern, three periods of data (catches a hole at one
    // specific displacement anywhere in the window)
    if !miri {
        for chunk in 0..64usize {
            cx.case("all_periods_light", |c| {
                c.sit("all_periods_light");
                let mut k = 0;
                for p in (chunk * 64 + 1)..=(chunk * 64 + 64) {
                    let mut rng = Rng::new(0xA11 + p as u64);
                    let (pat, what) = pattern(0, p, &mut rng);
                    for fmt in [Fmt::Lz10, Fmt::Lz13] {
                        check_periodic(c, fmt, &pat, 3 * p + 1, what);
                        k += 1;
                    }
                }
                c.eval(k);
            });
        }
        // inputs longer than 64 KiB and patterns that contain runs, over many periods
        for (p, n) in [(500usize, 70_000usize), (1000, 140_000), (3000, 70_001), (4096, 80_000), (101, 5000), (37, 40 * 37), (260, 30_000), (2000, 100_000), (2600, 140_000), (1500, 60_000)] {
            for kind in [0usize, 3, 7] {
                cx.case("long_inputs_and_runs", |c| {
                    c.sit("long_inputs_and_runs");
                    let mut rng = Rng::new((p * 7 + kind) as u64);
                    let (pat, what) = pattern(kind, p, &mut rng);
                    for fmt in [Fmt::Lz10, Fmt::Lz13] {
                        check_periodic(c, fmt, &pat, n, what);
                    }
                });
            }
        }
    }
    if !miri {
        // inputs of 1 MiB and more: few symbols (every trigram occurs many times inside one period)
        let big: &[(usize, usize, usize)] = if cx.a.quick() { &[(1000, (1 << 20) + 5, 4), (3000, (1 << 20) + 4100, 5)] } else { &[(1000, (1 << 20) + 5, 4), (3000, (1 << 20) + 4100, 5), (300, 1_300_000, 4), (4001, 2_100_000, 5), (2049, 10_000_000, 0), (2500, 16_000_000, 0), (7, 0xFF_FFFF, 0), (15, 0xFF_FFFF, 2), (3001, 9_000_000, 0)] };
        for &(p, n, kind) in big {
            cx.case("inputs_of_1MiB_and_more", |c| {
                c.sit("inputs_of_1MiB_and_more");
                let mut rng = Rng::new((p * 11 + kind) as u64);
                let (pat, what) = pattern(kind, p, &mut rng);
                for fmt in [Fmt::Lz10, Fmt::Lz13] {
                    check_periodic(c, fmt, &pat, n, what);
                }
            });
        }
    }
    if !miri {
        // resonance: a pattern of period p = (4096 + l) / 2 holding a stretch of l >= 273 bytes twice,
        // the second copy at the offset where the third full-length reference of the parse ends; an
        // encoder that settles for the l-byte match there lands on the same offset again 4096 bytes
        // later, every time - so the cost of not using the full match length adds up with n
        for l in [274usize, 280, 300, 400] {
            cx.case("resonant_inner_repeat", |c| {
                c.sit("resonant_inner_repeat");
                let p = (4096 + l) / 2;
                let b = (2 * (4096 - p)) % p;
                let mut rng = Rng::new(0x5E50 + l as u64);
                let mut pat = rng.bytes(p);
                if b >= l && b + l <= p {
                    let seg: Vec<u8> = pat[..l].to_vec();
                    pat[b..b + l].copy_from_slice(&seg);
                }
                for fmt in [Fmt::Lz10, Fmt::Lz13] {
                    check_periodic(c, fmt, &pat, 1_000_000 + l, "random bytes with a resonant inner repeat");
                }
            });
        }
    }
    // effectiveness bound
    let mut periods: Vec<usize> = if miri {
        vec![1, 2, 5]
    } else if cx.a.quick() {
        let mut v: Vec<usize> = (1..=40).chain(4080..=4096).collect();
        let mut r = Rng::new(cx.a.seed ^ 0xC10);
        for _ in 0..64 {
            v.push(r.range(41, 4079));
        }
        v
    } else {
        (1..=4096).collect()
    };
    periods.dedup();
    for p in periods {
        for kind in 0..8 {
            cx.case("periodic", |c| {
                c.sit(if p <= 40 { "periods_small" } else if p >= 4080 { "periods_window_edge" } else { "periods_middle" });
                let mut rng = Rng::new((p * 3 + kind) as u64);
                let (pat, what) = pattern(kind, p, &mut rng);
                let ns: Vec<usize> = if miri {
                    vec![p, p + 3, p + 19, 3 * p + 1]
                } else {
                    vec![p, p + 1, p + 2, p + 3, p + 17, p + 18, p + 19, 2 * p + 5, 3 * p + 1, p + 4095, p + 4096, p + 4097, 20000]
                };
                let mut k = 0;
                for n in ns {
                    for fmt in [Fmt::Lz10, Fmt::Lz13] {
                        check_periodic(c, fmt, &pat, n, what);
                        k += 1;
                    }
                }
                c.eval(k);
            });
        }
    }
}
