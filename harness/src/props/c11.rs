//! C11 — decompression is correct on every conforming stream and errors on the rest.
use crate::ctx::{Case, Ctx};
use crate::json::{hex_short, J};
use crate::prng::{fnv, Rng};
use crate::refs::lz::{self, Class, Kind, Tok};
use mila::{CompressionFormat, LZ10CompressionFormat, LZ13CompressionFormat};

#[derive(Clone, Copy, Debug, PartialEq, Eq)]
pub enum Entry {
    Lz10,
    Lz13,
    CfLz10,
    CfLz13,
}
pub const ENTRIES: [Entry; 4] = [Entry::Lz10, Entry::Lz13, Entry::CfLz10, Entry::CfLz13];

impl Entry {
    fn is13(self) -> bool {
        matches!(self, Entry::Lz13 | Entry::CfLz13)
    }
    fn name(self) -> &'static str {
        match self {
            Entry::Lz10 => "LZ10CompressionFormat::decompress",
            Entry::Lz13 => "LZ13CompressionFormat::decompress",
            Entry::CfLz10 => "CompressionFormat::LZ10.decompress",
            Entry::CfLz13 => "CompressionFormat::LZ13.decompress",
        }
    }
}

fn call(c: &mut Case, e: Entry, s: &[u8]) -> Option<Result<Vec<u8>, String>> {
    // exact-size private copy at a (usually) odd address (see monitor::Tight)
    let tight_copy = crate::monitor::tight(s);
    let s: &[u8] = &tight_copy;
    c.lib_stable(e.name(), || match e {
        Entry::Lz10 => LZ10CompressionFormat {}.decompress(s).map_err(|x| x.to_string()),
        Entry::Lz13 => LZ13CompressionFormat {}.decompress(s).map_err(|x| x.to_string()),
        Entry::CfLz10 => CompressionFormat::LZ10(LZ10CompressionFormat {}).decompress(s).map_err(|x| x.to_string()),
        Entry::CfLz13 => CompressionFormat::LZ13(LZ13CompressionFormat {}).decompress(s).map_err(|x| x.to_string()),
    })
}

/// What an entry point is expected to do with a byte string.
#[derive(Debug, Clone, PartialEq)]
pub enum Expect {
    Data(Vec<u8>),  // must return exactly this
    DataOrErr(Vec<u8>), // may reject, but must not return anything else
    Err(Class),     // must return an error
    NoPanic,        // only: no panic / abort
}

/// Classify `s` for entry point `e` with the independent reference.
pub fn expectation(e: Entry, s: &[u8]) -> (Expect, Class) {
    let limit = 1 << 22;
    if s.is_empty() {
        return (Expect::Err(Class::Empty), Class::Empty);
    }
    if e.is13() {
        match s[0] {
            0x00 => {
                if s.len() < 4 {
                    return (Expect::Err(Class::ShortHeader), Class::ShortHeader);
                }
                let declared = s[1] as usize | (s[2] as usize) << 8 | (s[3] as usize) << 16;
                if declared == s.len() - 4 {
                    return (Expect::Data(s[4..].to_vec()), Class::Conforming);
                }
                // the stored form's length bytes are not interpreted by anything the property anchors
                return (Expect::NoPanic, Class::Truncated);
            }
            0x13 => {
                if s.len() < 4 {
                    return (Expect::Err(Class::ShortHeader), Class::ShortHeader);
                }
                let inner = &s[4..];
                if inner.is_empty() {
                    return (Expect::Err(Class::ShortHeader), Class::ShortHeader);
                }
                let x = lz::expand(inner, limit);
                return match x.class {
                    Class::Conforming if x.kind == 0x11 && x.declared <= limit => (Expect::Data(x.out), Class::Conforming),
                    Class::Conforming => (Expect::NoPanic, Class::Conforming), // 0x13 around LZ10: not a documented form
                    Class::Empty => (Expect::Err(Class::ShortHeader), Class::ShortHeader),
                    cl if cl.must_err() => (Expect::Err(cl), cl),
                    cl => (Expect::NoPanic, cl),
                };
            }
            _ => {}
        }
    }
    let x = lz::expand(s, limit);
    match x.class {
        Class::Conforming if x.declared <= limit => {
            let cross = (x.kind == 0x11) != e.is13() && x.kind == 0x11 && !e.is13();
            if cross {
                // a bare LZ11 stream through the LZ10 entry point: accepted today; not demanded
                (Expect::DataOrErr(x.out), Class::Conforming)
            } else {
                (Expect::Data(x.out), Class::Conforming)
            }
        }
        Class::Conforming => (Expect::NoPanic, Class::Conforming),
        cl if cl.must_err() => (Expect::Err(cl), cl),
        cl => (Expect::NoPanic, cl),
    }
}

pub fn check(c: &mut Case, s: &[u8], what: &str) {
    for e in ENTRIES {
        let (exp, class) = expectation(e, s);
        c.eval(1);
        let r = match call(c, e, s) {
            None => continue, // panic reported (signature carries the location)
            Some(r) => r,
        };
        c.outcome(&format!("{}:{}", class.name(), if r.is_ok() { "ok" } else { "err" }));
        let show = || format!("{} on {} [{}] ({} bytes: {})", e.name(), class.name(), what, s.len(), hex_short(s, 80));
        match (&exp, &r) {
            (Expect::Data(d), Ok(got)) | (Expect::DataOrErr(d), Ok(got)) => {
                if got != d {
                    let i = got.iter().zip(d.iter()).position(|(a, b)| a != b).unwrap_or(got.len().min(d.len()));
                    c.fail("wrong_data", "wrong_data", format!("{}: returned {} bytes, reference expansion has {}; first difference at {}", show(), got.len(), d.len(), i));
                }
            }
            (Expect::Data(_), Err(err)) => c.fail("conforming_rejected", "conforming_rejected", format!("{}: conforming stream rejected with {}", show(), err)),
            (Expect::DataOrErr(_), Err(_)) => {}
            (Expect::Err(cl), Ok(got)) => c.fail(
                "malformed_accepted",
                &format!("malformed_accepted:{}", cl.name()),
                format!("{}: input is {} but decompress returned Ok({} bytes)", show(), cl.name(), got.len()),
            ),
            (Expect::Err(_), Err(_)) => {}
            (Expect::NoPanic, _) => {}
        }
    }
}

fn corrupt(rng: &mut Rng, s: &[u8]) -> Vec<u8> {
    let mut v = s.to_vec();
    if v.is_empty() {
        return v;
    }
    for _ in 0..rng.range(1, 3) {
        let i = rng.below(v.len());
        match rng.below(4) {
            0 => v[i] ^= 1 << rng.below(8),
            1 => v[i] = rng.u8(),
            2 => v[i] = 0xFF,
            _ => v[i] = 0,
        }
    }
    v
}

/// plant a reference reaching 1..=4096 bytes before the start of the output at token index `at`
fn plant_backref(kind: Kind, toks: &[Tok], at: usize, rng: &mut Rng) -> Option<(Vec<u8>, usize)> {
    let at = at.min(toks.len());
    let mut t: Vec<Tok> = toks[..at].to_vec();
    let produced: usize = t.iter().map(|x| match x { Tok::Lit(_) => 1, Tok::Ref(l, _) => *l }).sum();
    if produced >= 4096 {
        return None;
    }
    let over = rng.range(1, 4096 - produced);
    let len = rng.range(3, 10);
    t.push(Tok::Ref(len, produced + over));
    // a few harmless tokens afterwards; declared total is what a correct expansion would need
    let total = produced + len + 3;
    t.push(Tok::Lit(1));
    t.push(Tok::Lit(2));
    t.push(Tok::Lit(3));
    Some((lz::encode(kind, &t, total), at))
}

pub const REQUIRED: &[&str] = &[
    "conforming_lz10",
    "conforming_lz11",
    "wrapped_0x13",
    "stored_form",
    "lz11_form_3byte",
    "lz11_form_4byte",
    "disp_1",
    "disp_4096",
    "disp_reaches_first_byte",
    "overlapping_copy",
    "ends_inside_flag_group",
    "every_prefix",
    "backref_before_start_at_token_0",
    "backref_before_start_later",
    "backref_before_start_at_window_edge",
    "all_type_bytes",
    "short_inputs",
    "random_bytes",
    "lz11_extended_length_header",
    "lz11_extended_header_nonempty",
];

fn conforming_case(c: &mut Case, kind: Kind, toks: &[Tok], data: &[u8], what: &str, prefixes: bool) {
    let bare = lz::encode(kind, toks, data.len());
    // harness self-check: my own expander must agree with my own encoder
    let x = lz::expand(&bare, data.len() + 1);
    if x.class != Class::Conforming || x.out != data {
        c.st.harness_errors.push(format!("reference encoder/expander disagree on {:?} ({:?})", &toks[..toks.len().min(8)], x.class));
        return;
    }
    c.sit(if kind == Kind::Lz10 { "conforming_lz10" } else { "conforming_lz11" });
    let mut off = 0usize;
    let mut special = false;
    for t in toks {
        match t {
            Tok::Lit(_) => off += 1,
            Tok::Ref(len, disp) => {
                if *disp == 1 {
                    c.sit("disp_1");
                    special = true;
                }
                if *disp == 4096 {
                    c.sit("disp_4096");
                }
                if *disp == off {
                    c.sit("disp_reaches_first_byte");
                }
                if disp < len {
                    c.sit("overlapping_copy");
                }
                if kind == Kind::Lz11 {
                    if *len > 272 {
                        c.sit("lz11_form_4byte");
                    } else if *len > 16 {
                        c.sit("lz11_form_3byte");
                    }
                    if *len > 4096 {
                        special = true;
                    }
                }
                off += len;
            }
        }
    }
    if toks.len() % 8 != 0 {
        c.sit("ends_inside_flag_group");
    }
    if special {
        c.nontrivial(fnv(&bare));
    }
    check(c, &bare, what);
    if kind == Kind::Lz11 {
        c.sit("wrapped_0x13");
        check(c, &lz::wrap13(&bare), &format!("{} in 0x13 wrapper", what));
        if !data.is_empty() && (toks.len() % 3 == 0 || !prefixes) {
            // the same tokens behind the extended-size header (zero 24-bit size + 32-bit size)
            c.sit("lz11_extended_header_nonempty");
            let ext = lz::encode_ext(kind, toks, data.len(), true);
            check(c, &ext, &format!("{} with extended-size header", what));
            check(c, &lz::wrap13(&ext), &format!("{} with extended-size header in 0x13 wrapper", what));
        }
        if data.is_empty() {
            c.sit("lz11_extended_length_header");
        }
    }
    if prefixes {
        c.sit("every_prefix");
        for cut in 0..bare.len() {
            check(c, &bare[..cut], &format!("{} cut at {}", what, cut));
            if kind == Kind::Lz11 {
                let w = lz::wrap13(&bare);
                check(c, &w[..cut + 4.min(w.len() - cut)], &format!("{} wrapped, cut", what));
            }
        }
    }
    c.sample(if kind == Kind::Lz10 { "conforming_lz10" } else { "conforming_lz11" }, || {
        J::obj(vec![
            ("what", J::s(what)),
            ("tokens", J::s(format!("{:?}", &toks[..toks.len().min(12)]))),
            ("stream_hex", J::s(hex_short(&bare, 64))),
            ("output_len", J::U(data.len() as u64)),
            ("observed", J::s("all four entry points returned the reference expansion (bare; 0x13-wrapped for LZ11)")),
        ])
    });
}

pub fn run(cx: &mut Ctx) {
    cx.require(REQUIRED);
    cx.rule = "conforming streams are generated from random token sequences by the reference encoder (literals; references of every legal length form and displacement incl. 1, =length, =produced, 4096; streams ending inside a flag group), presented bare, 0x13-wrapped and as type-0 stored data to the four entry points; hostile inputs: every strict prefix, single-byte corruptions, references planted 1..=4096 bytes before the start of the output at token 0/1/8/9/random, all 256 type bytes, lengths 0..=3, random bytes. The reference classifier labels every input; conforming => exact data, {empty, short header, unknown type, truncated, backref before start} => Err, everything else => no panic. non-trivial = conforming stream using displacement 1 or a length > 4096 (forms the library's compressor never emits), or a stored form; distinct by stream hash".into();
    let miri = cfg!(miri);
    // ---- directed
    cx.case("empty_and_short", |c| {
        c.sit("short_inputs");
        for n in 0..=3usize {
            for t in [0x00u8, 0x10, 0x11, 0x13, 0x42] {
                let mut v = vec![t];
                v.extend(std::iter::repeat(1).take(n.saturating_sub(1)));
                v.truncate(n);
                check(c, &v, "short input");
            }
        }
        check(c, &[0x13, 0], "13 00");
        check(c, &[0x13, 0, 0, 0], "bare wrapper");
        check(c, &[0x13, 0, 0, 0, 0x11], "wrapper + 1 byte");
        check(c, &[0x13, 4, 0, 0, 0x11, 0, 0, 0], "wrapper + LZ11 header with zero 24-bit length");
    });
    cx.case("all_type_bytes", |c| {
        c.sit("all_type_bytes");
        for t in (0..=255u8).step_by(if cfg!(miri) { 15 } else { 1 }) {
            check(c, &[t, 3, 0, 0, 0x00, b'a', b'b', b'c'], "type byte sweep");
            check(c, &[0x13, 8, 0, 0, t, 3, 0, 0, 0x00, b'a', b'b', b'c'], "inner type byte sweep");
        }
    });
    cx.case("stored_form", |c| {
        c.sit("stored_form");
        let mut rng = Rng::new(5);
        let sizes: &[usize] = if cfg!(miri) { &[0, 1, 4, 5] } else { &[0, 1, 2, 3, 4, 5, 100, 4096, 65535, 65536, 65537, 70000, 200_000] };
        for &n in sizes {
            let d = rng.bytes(n);
            let s = lz::stored(&d);
            c.nontrivial(fnv(&s));
            check(c, &s, "stored form");
        }
    });
    cx.case("empty_output_streams", |c| {
        conforming_case(c, Kind::Lz10, &[], &[], "empty LZ10 stream", true);
        conforming_case(c, Kind::Lz11, &[], &[], "empty LZ11 stream (extended length header)", true);
    });
    for kind in [Kind::Lz10, Kind::Lz11] {
        cx.case("backref_before_start_directed", |c| {
            let mut rng = Rng::new(11);
            let (toks, _) = lz::gen_tokens(&mut rng, kind, 64);
            for at in [0usize, 1, 8, 9] {
                if let Some((s, at)) = plant_backref(kind, &toks, at, &mut rng) {
                    c.sit(if at == 0 { "backref_before_start_at_token_0" } else { "backref_before_start_later" });
                    check(c, &s, &format!("reference before start planted at token {}", at));
                    if kind == Kind::Lz11 {
                        check(c, &lz::wrap13(&s), "wrapped, reference before start");
                    }
                }
            }
            // the minimal witnesses
            check(c, &[0x10, 0x08, 0, 0, 0x80, 0x00, 0x05], "10 08 00 00 80 00 05");
            check(c, &[0x11, 0x08, 0, 0, 0x80, 0x20, 0x05], "11 08 00 00 80 20 05");
            check(c, &[0x13, 7, 0, 0, 0x11, 0x08, 0, 0, 0x80, 0x20, 0x05], "wrapped 11 08 00 00 80 20 05");
        });
    }
    if !miri {
        // a reference reaching before the start, planted where exactly 4090..=4095 bytes have been
        // produced, at every position inside a flag group (the window edge of the format)
        for kind in [Kind::Lz10, Kind::Lz11] {
            cx.case("backref_before_start_at_window_edge", |c| {
                c.sit("backref_before_start_at_window_edge");
                for produced in 4090usize..=4095 {
                    for slot in 0..8usize {
                        // ntok tokens before the bad one, ntok % 8 == slot: (ntok-1) literals + one reference of length l
                        let l = (3..=18usize).find(|l| (produced - l + 1) % 8 == slot).unwrap();
                        let nlit = produced - l;
                        let mut toks: Vec<Tok> = (0..nlit).map(|i| Tok::Lit((i * 7 % 251) as u8)).collect();
                        toks.push(Tok::Ref(l, 1.max(l.min(nlit))));
                        for disp in [produced + 1, 4096] {
                            if disp > 4096 || disp <= produced {
                                continue;
                            }
                            let mut t = toks.clone();
                            t.push(Tok::Ref(5, disp));
                            t.push(Tok::Lit(1));
                            let s = lz::encode(kind, &t, produced + 5 + 1);
                            check(c, &s, &format!("reference {} back with {} bytes produced, token slot {}", disp, produced, slot));
                            if kind == Kind::Lz11 {
                                check(c, &lz::wrap13(&s), "wrapped, reference before start at the window edge");
                            }
                        }
                    }
                }
            });
        }
        // the same at the window edge after nothing but literals, for each LZ11 reference form and
        // both LZ11 header forms (4 bytes; zero 24-bit size + 32-bit size word = 8 bytes)
        cx.case("backref_before_start_after_4090_to_4095_literals", |c| {
            c.sit("backref_before_start_at_window_edge");
            for nlit in 4088usize..=4095 {
                for len in [3usize, 5, 16, 17, 20, 272, 273, 300] {
                    let mut t: Vec<Tok> = (0..nlit).map(|i| Tok::Lit((i * 11 % 253) as u8)).collect();
                    t.push(Tok::Ref(len, 4096));
                    t.push(Tok::Lit(9));
                    for ext in [false, true] {
                        let s = lz::encode_ext(Kind::Lz11, &t, nlit + len + 1, ext);
                        check(c, &s, &format!("LZ11{} : {} literals, then a reference of length {} reaching 4096 back", if ext { " (extended header)" } else { "" }, nlit, len));
                        check(c, &lz::wrap13(&s), "the same, wrapped");
                    }
                    if len <= 18 {
                        let s = lz::encode(Kind::Lz10, &t, nlit + len + 1);
                        check(c, &s, &format!("LZ10: {} literals, then a reference of length {} reaching 4096 back", nlit, len));
                    }
                }
            }
        });
        // conforming streams that are themselves longer than 16 MiB (mostly literal tokens)
        cx.case("stream_longer_than_16MiB", |c| {
            c.sit("stream_longer_than_16MiB");
            let n = 15_200_000usize;
            let data: Vec<u8> = (0..n).map(|i| ((i as u32).wrapping_mul(2654435761) >> 13) as u8).collect();
            // all-literal LZ10 stream written directly: one zero flag byte per eight data bytes
            let mut s: Vec<u8> = Vec::with_capacity(n + n / 8 + 8);
            s.extend_from_slice(&[0x10, n as u8, (n >> 8) as u8, (n >> 16) as u8]);
            for chunk in data.chunks(8) {
                s.push(0);
                s.extend_from_slice(chunk);
            }
            for e in [Entry::Lz10, Entry::CfLz10] {
                c.eval(1);
                match call(c, e, &s) {
                    None => {}
                    Some(Err(err)) => c.fail("conforming_rejected", "conforming_rejected", format!("{}: conforming all-literal stream of {} bytes ({} bytes of data) rejected with {}", e.name(), s.len(), n, err)),
                    Some(Ok(got)) => {
                        if got != data {
                            c.fail("wrong_data", "wrong_data", format!("{}: all-literal stream of {} bytes: returned {} bytes, expected {}", e.name(), s.len(), got.len(), n));
                        }
                    }
                }
            }
        });
        cx.case("lz11_longest_forms", |c| {
            // lengths the library's compressor never emits: 4097..=65808
            let mut toks = vec![Tok::Lit(7), Tok::Lit(9)];
            let mut data = vec![7u8, 9];
            for (len, disp) in [(0x1111usize, 1usize), (3, 4096), (65808, 2), (5, 4096), (65807, 2), (4097, 4096), (273, 1), (18, 4095), (272, 2), (17, 1), (16, 2), (0x2111, 3), (9, 4096)] {
                toks.push(Tok::Ref(len, disp));
                for _ in 0..len {
                    let b = data[data.len() - disp];
                    data.push(b);
                }
            }
            conforming_case(c, Kind::Lz11, &toks, &data, "longest LZ11 forms", false);
        });
        // flag groups made of 0..=8 four-byte-form references (the longest possible group is 33 bytes),
        // three-byte forms and two-byte forms, at every position of the group
        for long_refs in 0..=8usize {
            for other in 0..3usize {
                cx.case("lz11_group_shapes", |c| {
                    c.sit("lz11_group_of_long_forms");
                    let mut toks: Vec<Tok> = (0..8).map(|i| Tok::Lit(i as u8 * 3 + 1)).collect();
                    let mut data: Vec<u8> = toks.iter().map(|t| if let Tok::Lit(b) = t { *b } else { 0 }).collect();
                    for round in 0..3 {
                        for slot in 0..8usize {
                            let is_long = (slot + round) % 8 < long_refs;
                            let t = if is_long {
                                Tok::Ref(0x111 + slot * 37 + round, 1 + (slot * 5 + round) % data.len().min(4096))
                            } else {
                                match other {
                                    0 => Tok::Lit((slot * 11 + round) as u8),
                                    1 => Tok::Ref(3 + slot, 1 + slot % data.len().min(4096)),
                                    _ => Tok::Ref(17 + slot * 30, 1 + (slot * 3) % data.len().min(4096)),
                                }
                            };
                            match t {
                                Tok::Lit(b) => data.push(b),
                                Tok::Ref(len, disp) => {
                                    for _ in 0..len {
                                        let b = data[data.len() - disp];
                                        data.push(b);
                                    }
                                }
                            }
                            toks.push(t);
                        }
                    }
                    conforming_case(c, Kind::Lz11, &toks, &data, "flag groups with many four-byte-form references", long_refs == 8);
                });
            }
        }
        // decoded sizes beyond 2^16 / 2^20 / 2^21 with a reference straddling the power of two
        if !cfg!(miri) {
            for (kind, pow) in [(Kind::Lz10, 16u32), (Kind::Lz11, 16), (Kind::Lz10, 20), (Kind::Lz11, 20), (Kind::Lz11, 21), (Kind::Lz10, 21)] {
                for variant in 0..3usize {
                    cx.case("output_size_thresholds", |c| {
                        c.sit("reference_straddles_output_offset_2^16_2^20_2^21");
                        let mut rng = c.rng.clone();
                        let edge = 1usize << pow;
                        let maxlen = if kind == Kind::Lz10 { 18 } else { [272usize, 4096, 65808][variant] };
                        let mut toks = vec![Tok::Lit(1), Tok::Lit(2), Tok::Lit(3), Tok::Lit(5)];
                        let mut data = vec![1u8, 2, 3, 5];
                        let end = edge + 3 * maxlen + rng.range(0, 50);
                        while data.len() < end {
                            let t = if rng.chance(1, 7) {
                                Tok::Lit(rng.u8())
                            } else {
                                let room = end - data.len();
                                let len = rng.range(3, maxlen).min(room.max(3));
                                Tok::Ref(len, rng.range(1, data.len().min(4096)))
                            };
                            // make sure the reference in flight when the edge is reached really crosses it
                            let t = match t {
                                Tok::Lit(_) if data.len() + 1 >= edge && data.len() < edge => Tok::Ref(maxlen.min(18).max(3), 2),
                                other => other,
                            };
                            match t {
                                Tok::Lit(b) => data.push(b),
                                Tok::Ref(len, disp) => {
                                    for _ in 0..len {
                                        let b = data[data.len() - disp];
                                        data.push(b);
                                    }
                                }
                            }
                            toks.push(t);
                        }
                        c.rng = rng;
                        conforming_case(c, kind, &toks, &data, "decoded size beyond a power of two", false);
                    });
                }
            }
        }
        cx.case("lz11_extreme_expansion", |c| {
            // 11 bytes of stream, 65810 bytes of output: legal
            let toks = vec![Tok::Lit(5), Tok::Lit(6), Tok::Ref(65808, 2)];
            let mut data = vec![5u8, 6];
            for _ in 0..65808 {
                let b = data[data.len() - 2];
                data.push(b);
            }
            conforming_case(c, Kind::Lz11, &toks, &data, "two literals and one 65808-byte copy", false);
            let toks = vec![Tok::Lit(9), Tok::Ref(18, 1), Tok::Ref(18, 1), Tok::Ref(18, 19)];
            let data = vec![9u8; 55];
            conforming_case(c, Kind::Lz10, &toks, &data, "LZ10 run, 18-byte copies", true);
        });
        cx.case("window_edge", |c| {
            let mut rng = Rng::new(3);
            let mut toks: Vec<Tok> = Vec::new();
            let mut data: Vec<u8> = Vec::new();
            for _ in 0..4096 {
                let b = rng.u8();
                toks.push(Tok::Lit(b));
                data.push(b);
            }
            for (len, disp) in [(18usize, 4096usize), (3, 4096), (18, 4095)] {
                toks.push(Tok::Ref(len, disp));
                for _ in 0..len {
                    let b = data[data.len() - disp];
                    data.push(b);
                }
            }
            conforming_case(c, Kind::Lz10, &toks, &data, "window edge (LZ10)", false);
            conforming_case(c, Kind::Lz11, &toks, &data, "window edge (LZ11)", false);
        });
    }
    // ---- random conforming streams (+ prefixes / corruptions)
    let n = cx.a.n(300_000, 2_000_000);
    let quick = cx.a.quick();
    for i in 0..n {
        cx.case("random_tokens", |c| {
            let mut rng = c.rng.clone();
            let kind = if rng.bool() { Kind::Lz10 } else { Kind::Lz11 };
            let max_out = if miri {
                24
            } else if i % 200 == 0 && !quick {
                1 << 20
            } else if i % 40 == 0 {
                20000
            } else {
                300
            };
            let (toks, data) = lz::gen_tokens(&mut rng, kind, max_out);
            let small = data.len() <= 400;
            let prefixes = small && (miri || i % 6 == 0);
            conforming_case(c, kind, &toks, &data, "random token sequence", prefixes && data.len() <= if miri { 12 } else { 400 });
            if small {
                let bare = lz::encode(kind, &toks, data.len());
                for _ in 0..3 {
                    let bad = corrupt(&mut rng, &bare);
                    check(c, &bad, "single-byte corruption");
                    if kind == Kind::Lz11 {
                        check(c, &corrupt(&mut rng, &lz::wrap13(&bare)), "corrupted wrapped stream");
                    }
                }
                let at = match rng.below(5) {
                    0 => 0,
                    1 => 1,
                    2 => 8,
                    3 => 9,
                    _ => rng.below(toks.len() + 1),
                };
                if let Some((s, at)) = plant_backref(kind, &toks, at, &mut rng) {
                    c.sit(if at == 0 { "backref_before_start_at_token_0" } else { "backref_before_start_later" });
                    check(c, &s, &format!("reference before start planted at token {}", at));
                }
                if rng.chance(1, 4) {
                    let s = lz::stored(&data);
                    c.sit("stored_form");
                    check(c, &s, "stored form of the same data");
                    // stored form with a wrong length / cut after the header: no panic
                    check(c, &s[..4 + rng.below(data.len() + 1)], "stored form cut after its header");
                }
            }
        });
    }
    let n = cx.a.n(60_000, 1_000_000);
    for _ in 0..n {
        cx.case("random_bytes", |c| {
            c.sit("random_bytes");
            let mut rng = c.rng.clone();
            let len = if rng.chance(1, 2) { rng.range(0, 12) } else { rng.range(0, if miri { 24 } else { 200 }) };
            let mut v = rng.bytes(len);
            if !v.is_empty() && rng.chance(3, 4) {
                v[0] = *rng.pick(&[0x10u8, 0x11, 0x13, 0x00]);
                if v[0] == 0x13 && v.len() > 4 && rng.chance(3, 4) {
                    v[4] = *rng.pick(&[0x10u8, 0x11]);
                }
                // keep declared lengths small so the reference expander stays cheap
                if v.len() > 3 && rng.chance(3, 4) {
                    v[2] = 0;
                    v[3] = 0;
                }
                if v.len() > 7 && v[0] == 0x13 {
                    v[6] = 0;
                    v[7] = 0;
                }
            }
            check(c, &v, "random bytes");
        });
    }
}
