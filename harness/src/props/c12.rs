//! C12 — layered filesystem: top layer wins, writes stay on top, read-after-write.
use super::fsx::{self, Focus};
use crate::ctx::Ctx;
use crate::refs::loc::LANGS;
use mila::{Game, LayeredFilesystem};

pub const REQUIRED: &[&str] = &[
    "write_shadows_lower_file",
    "write_shadow_then_later_read",
    "read_falls_through_two_layers",
    "read_missing_file",
    "read_shadowed_lower_file",
    "read_compressed_suffix",
    "write_compressed_lz10",
    "write_compressed_lz13",
    "localized_call",
    "unlocalized_call",
    "unsupported_pair_call",
    "read_archive_conforming",
    "read_text_conforming",
    "read_pack_conforming",
    "read_arc_conforming",
    "read_textures_conforming",
    "unsupported_games_rejected",
    "game_FE9",
    "game_FE10",
    "game_FE13",
    "game_FE14",
    "game_FE15",
    "three_or_more_layers",
    "layer_list_names_a_directory_twice",
    "files_around_16MiB",
    "component_of_252_to_255_bytes",
    "layer_roots_with_non_ascii_names",
];

pub fn run(cx: &mut Ctx) {
    cx.require(REQUIRED);
    cx.rule = "1..=4 layer directories under /verif/.scratch with generated trees (same path in several layers, files shadowing directories of other layers, empty directories, files at localized locations; compressed-suffix files holding reference-encoded LZ10/LZ11/0x13/stored streams or garbage; reference-built bin archives in both byte orders, pack and arc files); histories of 10..=60 calls over write/read/exists/file_exists/directory_exists/resolve/create_dir/list/subdirectories/write_archive/read_archive/write_text_archive/read_text_archive/read_fe9_arc/read_arc/read_ctpk|bch|cgfx|tpl_textures on relative paths of plain components, localized and not, for games FE9/FE10/FE13/FE14/FE15 x all 8 languages. After EVERY call the full tree of every layer directory is read back: lower layers must be bit-identical, the top layer must equal the model; results are compared with a top-down search of the model; files written under a compressed suffix are validated by the reference LZ decoder; read-after-write is checked after every write. non-trivial = history with a write that shadows a lower-layer file and a later read of that path; file names of 200..255 bytes; files of 2^24-1, 2^24, 2^24+5 bytes; directories with 65..140 entries partly duplicated across layers; 33..45 nested directories; layer directories with non-ASCII names (every fourth world); a failed write on a writable target is a violation unless the payload has 2^24 bytes or more under the compressed suffix; distinct by history hash".into();
    cx.case("unsupported_games_rejected", |c| {
        c.sit("unsupported_games_rejected");
        let dir = fsx::scratch_dir().join("unsupported");
        let _ = std::fs::create_dir_all(&dir);
        for g in [Game::FE11, Game::FE12] {
            for lang in LANGS {
                let r = c.lib("LayeredFilesystem::new", || LayeredFilesystem::new(vec![dir.display().to_string()], lang, g).is_ok());
                if r == Some(true) {
                    c.fail("new", "unsupported_game_accepted", format!("LayeredFilesystem::new accepted {}", fsx::game_name(g)));
                }
            }
        }
        let r = c.lib("LayeredFilesystem::new (no layers)", || LayeredFilesystem::new(vec![], LANGS[0], Game::FE14).is_ok());
        if r == Some(true) {
            c.fail("new", "no_layers_accepted", "LayeredFilesystem::new accepted an empty layer list".to_string());
        }
        let _ = std::fs::remove_dir_all(&dir);
    });
    // thresholds: files of 2^24-1, 2^24 and 2^24+5 bytes (the compressed formats describe at most 2^24-1)
    for k in 0..4u64 {
        cx.case("large_files", |c| {
            c.sit("files_around_16MiB");
            let mut rng = c.rng.clone();
            let scratch = fsx::scratch_dir();
            let mut w = match fsx::World::new(c, &scratch, &mut rng, Focus::General) {
                Ok(w) => w,
                Err(e) => {
                    c.st.harness_errors.push(e);
                    return;
                }
            };
            let pat = rng.bytes(7);
            let size = [(1usize << 24) - 1, 1 << 24, (1 << 24) + 5, (1 << 24) - 1][k as usize];
            let body: Vec<u8> = (0..size).map(|i| pat[i % 7]).collect();
            let names = ["big_plain.dat", "big.lz", "big.cmp", "m/big_plain2.bin"];
            let mut ops = Vec::new();
            for (i, n) in names.iter().enumerate() {
                if (i as u64 + k) % 2 == 0 || i == 0 {
                    ops.push(fsx::FOp::Write(n.to_string(), body.clone(), false));
                    ops.push(fsx::FOp::Read(n.to_string(), false));
                    ops.push(fsx::FOp::FileExists(n.to_string(), false));
                }
            }
            for op in &ops {
                c.eval(1);
                if !fsx::exec(c, &mut w, op) {
                    break;
                }
            }
            w.cleanup();
        });
    }
    let n = cx.a.n(8_000, 150_000);
    for _ in 0..n {
        cx.case("history", |c| fsx::run_history(c, Focus::General));
    }
}
