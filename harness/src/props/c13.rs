//! C13 — listings are the sorted, de-duplicated union of layers.
use super::fsx::{self, Focus};
use crate::ctx::Ctx;

pub const REQUIRED: &[&str] = &[
    "listing_union_with_duplicates",
    "listing_missing_directory",
    "listing_root",
    "subdirectories_several",
    "localized_listing_equals_unlocalized",
    "ref_matcher_selftest",
    "directory_with_more_than_64_entries_and_cross_layer_duplicates",
    "more_than_32_nested_directories",
    "layer_roots_with_non_ascii_names",
];

pub fn run(cx: &mut Ctx) {
    cx.require(REQUIRED);
    cx.rule = "the layer trees and histories of C12 with listings dominating (list with patterns {none, *, *.ext, **/*.ext, name.*, sub/*} and subdirectories, on every kind of directory: root, nested, trailing-slash form, missing, a path that is a file), interleaved with writes and create_dir. Oracle: recursive walk of the model (which is re-read from disk after every call) + a reference matcher for that pattern family; every listed path is also passed to exists(); localized listings are compared with the unlocalized listing of the localized directory. non-trivial = listing with >=2 entries coming from >=2 layers with >=1 duplicate path removed; distinct by (call, result) hash".into();
    cx.case("ref_matcher_selftest", |c| {
        c.sit("ref_matcher_selftest");
        let t = [
            (None, "a/b.txt", true),
            (Some("*"), "a", true),
            (Some("*"), "a/b", false),
            (Some("*.txt"), "b.txt", true),
            (Some("*.txt"), "a/b.txt", false),
            (Some("**/*.txt"), "b.txt", true),
            (Some("**/*.txt"), "a/c/b.txt", true),
            (Some("**/*.txt"), "a/c/b.bin", false),
            (Some("one.*"), "one.bin", true),
            (Some("one.*"), "one", false),
            (Some("sub/*"), "sub/x", true),
            (Some("sub/*"), "sub/x/y", false),
            (Some("sub/*"), "sub", false),
        ];
        for (p, s, e) in t {
            if fsx::ref_match(p, s) != e {
                c.st.harness_errors.push(format!("reference matcher: {:?} vs {:?} should be {}", p, s, e));
            }
        }
    });
    let n = cx.a.n(8_000, 150_000);
    for _ in 0..n {
        cx.case("history", |c| fsx::run_history(c, Focus::Listing));
    }
}
