//! C14 — path localisation inserts the game's language marker and nothing else.
use super::fsx;
use crate::ctx::{Case, Ctx};
use crate::json::J;
use crate::prng::fnv;
use crate::refs::loc::{self, Expected, Loc, LANGS, LOCS};
use mila::{FE10PathLocalizer, FE13PathLocalizer, FE14PathLocalizer, FE15PathLocalizer, FE9PathLocalizer, Language, NoOpPathLocalizer, PathLocalizer};

pub fn localizer(l: Loc) -> PathLocalizer {
    match l {
        Loc::NoOp => PathLocalizer::NoOp(NoOpPathLocalizer {}),
        Loc::FE9 => PathLocalizer::FE9(FE9PathLocalizer {}),
        Loc::FE10 => PathLocalizer::FE10(FE10PathLocalizer {}),
        Loc::FE13 => PathLocalizer::FE13(FE13PathLocalizer {}),
        Loc::FE14 => PathLocalizer::FE14(FE14PathLocalizer {}),
        Loc::FE15 => PathLocalizer::FE15(FE15PathLocalizer {}),
    }
}

pub const COMPONENTS: [&str; 13] = ["m", "GameData.bin.lz", "a b", " ", "ü", "日本", "@E", "e_x", "x.", "-", "Data\\One.bin", "...", "Яį.bin"];
pub const SCHEME_LIKE: [&str; 9] = ["rom:", "romfs:", "sdmc:", "C:", "~", "file:", "ROM:", "rom", "data:"];
pub const DEGENERATE: [&str; 8] = ["", "/", "..", "a/..", ".", "//", "a/../", "../"];

fn check_one(c: &mut Case, l: Loc, lang: Language, path: &str) {
    let exp = loc::localize(l, lang, path);
    let got = c.lib("PathLocalizer::localize", || localizer(l).localize(path, &lang).map_err(|e| e.to_string()));
    let got = match got {
        None => return,
        Some(g) => g,
    };
    let ctx = || format!("{:?} localizer, {}, path {:?}", l, loc::lang_name(lang), path);
    match (&exp, &got) {
        (Expected::Path(e), Ok(g)) => {
            if e != g {
                c.fail("wrong_path", &format!("wrong_path:{:?}", l), format!("{}: expected {:?}, got {:?}", ctx(), e, g));
            }
        }
        (Expected::Path(e), Err(err)) => c.fail("wrong_reject", &format!("wrong_reject:{:?}", l), format!("{}: expected {:?}, got Err({})", ctx(), e, err)),
        (Expected::Err, Ok(g)) => {
            let kind = if loc::marker(l, lang) == loc::Marker::Unsupported { "unsupported_pair_accepted" } else { "no_final_component_accepted" };
            c.fail(kind, &format!("{}:{:?}", kind, l), format!("{}: expected an error, got Ok({:?})", ctx(), g))
        }
        (Expected::Err, Err(_)) => {}
    }
}

pub const REQUIRED: &[&str] = &["table_grid", "degenerate_paths", "fs_localized_ops"];

pub fn run(cx: &mut Ctx) {
    cx.require(REQUIRED);
    cx.rule = "exhaustive: 6 localizers x 8 languages x every path of depth 1..=4 over the components {m, GameData.bin.lz, 'a b', ' ', u-umlaut, two kanji, @E, e_x, 'x.', -, 'Data\\One.bin' (a backslash is an ordinary character on this platform), '...', a Cyrillic/Latin-extended name whose code points end in 0x2F} with and without a trailing slash (30940 x 2 paths), paths of every total length 200..=300 bytes and around 1 KiB / 4 KiB, every path of depth 2..=3 below a first component that looks like a mount point / drive / scheme (rom:, romfs:, sdmc:, C:, ~, file:, ROM:, rom, data:), plus the degenerate paths \"\", /, .., a/.., ., //; oracle = the literal 6x8 marker table of the statement applied to a string split at the last '/'. Filesystem part: for each supported game x language, localized write/read/exists/list on generated paths under the on-disk monitors of C12 (the file must appear at layer/<expected localized path>). non-trivial = (localizer, language, path shape) triples; the table x shape grid is exhaustive".into();
    let miri = cfg!(miri);
    let depth_max = if miri { 2 } else { 4 };
    // one case per (localizer, language): enumerates all shapes
    for l in LOCS {
        for lang in LANGS {
            cx.case("table_grid", |c| {
                c.sit("table_grid");
                let mut n = 0u64;
                let mut stack: Vec<String> = COMPONENTS.iter().map(|s| s.to_string()).collect();
                let mut level: Vec<String> = stack.clone();
                for _ in 1..depth_max {
                    let mut next = Vec::new();
                    for p in &level {
                        for comp in COMPONENTS {
                            next.push(format!("{}/{}", p, comp));
                        }
                    }
                    stack.extend(next.iter().cloned());
                    level = next;
                }
                for p in &stack {
                    check_one(c, l, lang, p);
                    check_one(c, l, lang, &format!("{}/", p));
                    n += 2;
                }
                for d in 1..=depth_max {
                    for slash in [false, true] {
                        c.nontrivial(fnv(format!("{:?}|{}|{}|{}", l, loc::lang_name(lang), d, slash).as_bytes()));
                    }
                }
                c.eval(n);
                c.sample("table_grid", || {
                    J::obj(vec![
                        ("localizer", J::s(format!("{:?}", l))),
                        ("language", J::s(loc::lang_name(lang))),
                        ("paths", J::U(n)),
                        ("example", J::s(format!("{:?} -> {:?}", "m/GameData.bin.lz", loc::localize(l, lang, "m/GameData.bin.lz")))),
                    ])
                });
            });
            if !miri {
                cx.case("long_paths", |c| {
                    c.sit("long_paths_every_length_200_to_300_and_beyond");
                    // every total input length 200..=300 (results cross 256 bytes at different inputs for
                    // different markers), split over 2..=5 components, plus a few around 1 KiB and 4 KiB
                    let mut rng = c.rng.clone();
                    let mut n = 0u64;
                    for total in (200usize..=300).chain([1020, 1024, 1030, 4090, 4096, 4100]) {
                        for _ in 0..2 {
                            let parts = rng.range(2, 5);
                            let mut lens = vec![1usize; parts];
                            let mut left = total - (parts - 1) - parts; // separators and the 1 already given
                            while left > 0 {
                                let i = rng.below(parts);
                                let add = rng.range(1, left.min(120));
                                lens[i] += add;
                                left -= add;
                            }
                            let comps: Vec<String> = lens.iter().enumerate().map(|(i, l)| ((b'a' + (i as u8 % 26)) as char).to_string().repeat(*l)).collect();
                            let p = comps.join("/");
                            debug_assert_eq!(p.len(), total);
                            check_one(c, l, lang, &p);
                            check_one(c, l, lang, &format!("{}/", p));
                            n += 2;
                        }
                    }
                    c.rng = rng;
                    c.eval(n);
                });
            }
            cx.case("scheme_like_first_component", |c| {
                c.sit("scheme_like_first_component");
                // first components that look like a mount point / drive / URL scheme are plain names
                let mut n = 0u64;
                for pre in SCHEME_LIKE {
                    for a in COMPONENTS {
                        check_one(c, l, lang, &format!("{}/{}", pre, a));
                        check_one(c, l, lang, &format!("{}/{}/", pre, a));
                        n += 2;
                        if !miri {
                            for b in COMPONENTS {
                                check_one(c, l, lang, &format!("{}/{}/{}", pre, a, b));
                                n += 1;
                            }
                        }
                    }
                    check_one(c, l, lang, pre);
                    n += 1;
                }
                c.eval(n);
            });
            cx.case("degenerate_paths", |c| {
                c.sit("degenerate_paths");
                if l == Loc::NoOp {
                    // identity: only "never panics"
                    for p in DEGENERATE {
                        let _ = c.lib("PathLocalizer::localize", || localizer(l).localize(p, &lang).is_ok());
                    }
                    return;
                }
                for p in DEGENERATE {
                    check_one(c, l, lang, p);
                }
            });
        }
    }
    // filesystem part: localized operations address layer/<expected localized path>
    if !miri {
        let n = cx.a.n(2_000, 30_000);
        for _ in 0..n {
            cx.case("fs_localized_ops", |c| {
                c.sit("fs_localized_ops");
                fsx::run_history(c, fsx::Focus::Localized);
            });
        }
    } else {
        cx.case("fs_localized_ops", |c| c.sit("fs_localized_ops"));
    }
}
