//! C15 — GameCube/Wii pack archive: build -> parse is identity, layout is aligned.
use crate::ctx::{Case, Ctx};
use crate::json::{hex_short, J};
use crate::prng::{fnv, fnv_add, Rng};
use crate::refs::containers::{pack_build, pack_read, PackPlan};
use crate::refs::strings::{gen_ident, gen_sjis, sjis_encode};
use indexmap::IndexMap;
use mila::fe9_arc;

pub type Files = Vec<(String, Vec<u8>)>;

pub fn describe(files: &Files) -> String {
    let shown: Vec<String> = files.iter().take(6).map(|(n, b)| format!("{:?}:{}B", n, b.len())).collect();
    format!("{} files [{}{}]", files.len(), shown.join(", "), if files.len() > 6 { ", ..." } else { "" })
}

fn fp(files: &Files) -> u64 {
    let mut h = fnv(b"pack");
    for (n, b) in files {
        h = fnv_add(h, n.as_bytes());
        h = fnv_add(h, &[0]);
        h = fnv_add(h, b);
    }
    h
}

fn same(c: &mut Case, what: &str, sig: &str, got: &IndexMap<String, Vec<u8>>, files: &Files, ctx: &str) -> bool {
    let g: Vec<(&String, &Vec<u8>)> = got.iter().collect();
    if g.len() != files.len() {
        c.fail(what, sig, format!("{}: {} files returned, expected {}; {}", ctx, g.len(), files.len(), describe(files)));
        return false;
    }
    for (i, ((gn, gb), (en, eb))) in g.iter().zip(files.iter()).enumerate() {
        if *gn != en {
            c.fail(what, sig, format!("{}: file #{} is named {:?}, expected {:?}; {}", ctx, i, gn, en, describe(files)));
            return false;
        }
        if *gb != eb {
            c.fail(what, sig, format!("{}: contents of file #{} {:?} differ ({} vs {} bytes); {}", ctx, i, en, gb.len(), eb.len(), describe(files)));
            return false;
        }
    }
    true
}

pub fn check(c: &mut Case, files: &Files, nvariants: usize) {
    let mut map: IndexMap<String, Vec<u8>> = IndexMap::new();
    for (n, b) in files {
        map.insert(n.clone(), b.clone());
    }
    if files.is_empty() {
        c.sit("empty_archive");
    }
    if files.iter().any(|(_, b)| b.is_empty()) {
        c.sit("empty_file");
    }
    if files.iter().any(|(n, _)| n.is_empty()) {
        c.sit("empty_name");
    }
    if files.iter().any(|(n, _)| !n.is_ascii()) {
        c.sit("non_ascii_name");
    }
    if files.iter().any(|(_, b)| !b.is_empty() && b.len() % 32 == 0) {
        c.sit("length_multiple_of_32");
    }
    let names_len: usize = files.iter().map(|(n, _)| sjis_encode(n).map(|e| e.len() + 1).unwrap_or(0)).sum();
    if files.len() > 0 && (8 + 16 * files.len() + names_len) % 32 == 0 {
        c.sit("name_table_ends_on_32_boundary");
    }
    if files.len() >= 2 && files.iter().any(|(_, b)| b.len() % 32 != 0) {
        c.nontrivial(fp(files));
    }
    let img = match c.lib_stable("fe9_arc::serialize", || fe9_arc::serialize(&map).map_err(|e| e.to_string())) {
        None => return,
        Some(Err(e)) => {
            c.fail("serialize_err", "serialize_err", format!("serialize returned Err({}) for {}", e, describe(files)));
            return;
        }
        Some(Ok(b)) => b,
    };
    // reference reader on the image
    match pack_read(&img) {
        Err(e) => c.fail("image", "image_malformed", format!("serialized pack image is malformed: {}; {} image={}", e, describe(files), hex_short(&img, 200))),
        Ok(entries) => {
            if entries.len() != files.len() {
                c.fail("image", "image_count", format!("header count {} != {} files", entries.len(), files.len()));
            } else {
                for (i, (e, (n, b))) in entries.iter().zip(files.iter()).enumerate() {
                    if &e.name != n || &e.body != b || e.size != b.len() {
                        c.fail("image", "image_entry", format!("entry #{} in the image is ({:?}, {} bytes), expected ({:?}, {} bytes); {}", i, e.name, e.size, n, b.len(), describe(files)));
                        break;
                    }
                    if e.body_off % 32 != 0 {
                        c.fail("image", "image_alignment", format!("entry #{} {:?} starts at {:#x}, not a multiple of 32; {}", i, n, e.body_off, describe(files)));
                        break;
                    }
                }
            }
        }
    }
    let img_t = crate::monitor::tight(&img);
    match c.lib("fe9_arc::parse", || fe9_arc::parse(&img_t)) {
        None => {}
        Some(Err(e)) => c.fail("roundtrip", "parse_err", format!("parse(serialize(m)) returned Err({}); {}", e, describe(files))),
        Some(Ok(got)) => {
            same(c, "roundtrip", "roundtrip", &got, files, "parse(serialize(m))");
        }
    }
    c.sample("roundtrip", || J::obj(vec![("files", J::s(describe(files))), ("image_len", J::U(img.len() as u64)), ("image_hex", J::s(hex_short(&img, 128))), ("observed", J::s("reference reader: count, names, offsets (32-aligned), sizes exact; library parse equal in order and content"))]));
    // conforming re-arrangements
    let mut rng = c.rng.clone();
    for _ in 0..nvariants {
        let plan = PackPlan { no_tail_padding: rng.chance(1, 3), names_after_bodies: rng.bool(), reverse_bodies: rng.bool(), extra_padding: rng.bool(), shared_name_storage: rng.chance(1, 3) };
        let v = pack_build(files, &plan, &mut rng);
        c.eval(1);
        // harness self-check
        match pack_read(&v) {
            Ok(es) if es.len() == files.len() && es.iter().zip(files.iter()).all(|(e, (n, b))| &e.name == n && &e.body == b) => {}
            _ => {
                c.st.harness_errors.push(format!("pack builder/reader disagree for plan {:?} on {}", plan, describe(files)));
                return;
            }
        }
        if plan.names_after_bodies {
            c.sit("variant_names_after_bodies");
        }
        if plan.reverse_bodies && files.len() >= 2 {
            c.sit("variant_bodies_reversed");
        }
        let v_t = crate::monitor::tight(&v);
        match c.lib("fe9_arc::parse(variant)", || fe9_arc::parse(&v_t)) {
            None => {}
            Some(Err(e)) => c.fail("variant", "variant_err", format!("parse rejected a conforming re-arrangement {:?} with Err({}); {}", plan, e, describe(files))),
            Some(Ok(got)) => {
                if same(c, "variant", "variant", &got, files, &format!("parse of conforming re-arrangement {:?}", plan)) && files.len() >= 2 {
                    c.sample("variant", || J::obj(vec![("files", J::s(describe(files))), ("plan", J::s(format!("{:?}", plan))), ("image_hex", J::s(hex_short(&v, 128)))]));
                }
            }
        }
    }
}

pub fn gen_files(rng: &mut Rng, max_files: usize, max_body: usize) -> Files {
    let n = rng.skewed(max_files);
    let mut files: Files = Vec::new();
    if n >= 2 && rng.chance(1, 30) {
        // two distinct names that collide under a common hash function
        let (a, b) = *rng.pick(&crate::refs::strings::COLLIDING_PAIRS);
        files.push((a.to_string(), rng.bytes(3)));
        files.push((b.to_string(), rng.bytes(5)));
    }
    while files.len() < n {
        let name = match rng.below(8) {
            0 => String::new(),
            1 => gen_sjis(rng, 10),
            2 => {
                // 31/32/33-byte names
                let l = rng.range(30, 33);
                (0..l).map(|i| (b'a' + (i % 26) as u8) as char).collect::<String>() + &gen_ident(rng, 2)
            }
            3 if !files.is_empty() => {
                // a name that contains / is contained in an earlier name (not only as its tail)
                let prev = files[rng.below(files.len())].0.clone();
                match rng.below(4) {
                    0 => format!("{}.bak", prev),
                    1 => prev.chars().take(prev.chars().count().saturating_sub(1).max(1)).collect(),
                    2 => prev.chars().skip(1).collect(),
                    _ => format!("x{}", prev),
                }
            }
            4 if rng.chance(1, 3) => {
                // path-like names: separators, "." and ".." components are ordinary name characters
                let k = rng.range(1, 4);
                let sep = if rng.chance(1, 3) { "\\" } else { "/" };
                (0..k).map(|_| rng.pick(&["..", ".", "a", "dir", "x.bin", "", "..."]).to_string()).collect::<Vec<_>>().join(sep)
            }
            5 if rng.chance(1, 4) => {
                // 60..70 single-byte characters followed by multi-byte ones (a 3-byte UTF-8 character
                // straddles byte 64 for some of them)
                let l = rng.range(58, 70);
                (0..l).map(|i| (b'a' + (i % 26) as u8) as char).collect::<String>() + *rng.pick(&["あいうえお.bin", "ｱｲｳ", "日本語", "Ωψ"]) + &gen_ident(rng, 2)
            }
            _ => format!("{}.bin", gen_ident(rng, 10)),
        };
        if files.iter().any(|(n2, _)| *n2 == name) {
            continue;
        }
        let len = match rng.below(10) {
            0 => 0,
            1 => 1,
            2 => *rng.pick(&[31usize, 32, 33, 63, 64, 65]),
            _ => rng.skewed(max_body),
        };
        files.push((name, rng.bytes(len)));
    }
    files
}

pub const REQUIRED: &[&str] = &["empty_archive", "empty_file", "empty_name", "non_ascii_name", "length_multiple_of_32", "variant_names_after_bodies", "variant_bodies_reversed", "many_files", "poisoned_by_failing_calls_first"];

pub fn run(cx: &mut Ctx) {
    cx.require(REQUIRED);
    cx.rule = "ordered maps of 0..=40 distinct Shift-JIS-domain names (incl. the empty name, 2-byte characters, 31/32/33-byte names) to contents of length {0,1,31,32,33,63,64,65, random <= 4 KiB}; plus maps of 255, 256, 4096, 32767, 32768 and 65535 one-byte files (the count field is 16 bits); plus bodies of 2^24+1, 2^24+31 and 2^25+2 bytes followed by further files. Each map is serialized, read by the strict reference reader (count, names, offsets 32-aligned, sizes) and parsed back; K conforming re-arrangements written by the reference builder (names after bodies, bodies reversed, extra padding, shared name storage) are fed to the parser. non-trivial = >=2 files with >=1 length not a multiple of 32; distinct by content hash".into();
    let miri = cfg!(miri);
    cx.case("directed", |c| {
        check(c, &vec![], 4);
        check(c, &vec![(String::new(), vec![])], 4);
        check(c, &vec![("a".into(), vec![1; 32]), ("".into(), vec![2; 33]), ("日本語.bin".into(), vec![]), ("b".into(), vec![3; 31])], 8);
        c.eval(3);
    });
    if !miri && cx.a.scale >= 0.24 {
        for n in [255usize, 256, 4096, 32767, 32768, 65535] {
            cx.case("many_files", |c| {
                c.sit("many_files");
                let files: Files = (0..n).map(|i| (format!("f{}", i), vec![(i % 251) as u8])).collect();
                check(c, &files, 1);
            });
        }
    }
    if !miri {
        // names ending in (or made of) control characters, at every position of an 8-byte word
        cx.case("names_with_control_characters", |c| {
            c.sit("names_ending_in_control_characters");
            for ctl in ['\u{1}', '\u{2}', '\u{7f}', '\t', '\u{1f}'] {
                let mut files: Files = Vec::new();
                for k in 0..18usize {
                    files.push((format!("{}{}", "n".repeat(k), ctl), vec![k as u8; k % 5]));
                    files.push((format!("{}{}{}", "m".repeat(k), ctl, ctl), vec![]));
                    files.push((format!("{}{}z", "p".repeat(k), ctl), vec![1]));
                }
                check(c, &files, 2);
            }
        });
        // names of 65535 / 65536 / 65537 / 70000 encoded bytes (no field limits the length of a name)
        cx.case("very_long_names", |c| {
            c.sit("names_longer_than_64KiB");
            for bytes in [65_535usize, 65_536, 65_537, 70_000] {
                let kata: String = "テ".repeat(bytes / 2);
                let name = if bytes % 2 == 1 { format!("x{}", kata) } else { kata };
                let files: Files = vec![("first".into(), vec![1, 2, 3]), (name, vec![4; 40]), ("x".repeat(bytes), vec![]), ("last".into(), vec![5])];
                check(c, &files, 2);
            }
        });
    }
    if !miri && cx.a.scale >= 0.24 {
        // bodies just beyond 2^24 and 2^25 bytes (sizes a 32-bit float cannot hold exactly) that
        // are FOLLOWED by another file: the next body must still start on the next multiple of 32
        cx.case("bodies_beyond_16MiB_followed_by_another_file", |c| {
            c.sit("body_longer_than_16MiB_followed_by_another_file");
            for len in [(1usize << 24) + 1, (1 << 24) + 31, (1 << 25) + 2] {
                let big: Vec<u8> = (0..len).map(|i| (i % 251) as u8).collect();
                let files: Files = vec![("head".into(), vec![9; 5]), ("big.bin".into(), big), ("after".into(), vec![7; 33]), ("last".into(), vec![1])];
                check(c, &files, 1);
            }
        });
    }
    let n = cx.a.n(300_000, 2_000_000);
    let quick = cx.a.quick();
    for _ in 0..n {
        cx.case("random", |c| {
            super::poison::maybe(c, 9);
            let mut rng = c.rng.clone();
            let files = gen_files(&mut rng, if miri { 3 } else { 40 }, if miri { 40 } else if quick { 600 } else { 4096 });
            c.rng = rng;
            check(c, &files, if miri { 1 } else { 3 });
        });
    }
}
