//! C16 — 3DS arc extraction returns exactly the packed files.
use super::c15::{describe, gen_files, Files};
use crate::ctx::{Case, Ctx};
use crate::json::{hex_short, J};
use crate::prng::{fnv, fnv_add, Rng};
use crate::refs::containers::{arc_build, ArcPlan};
use mila::arc;

fn fp(files: &Files, plan: &ArcPlan) -> u64 {
    let mut h = fnv(format!("{:?}", plan).as_bytes());
    for (n, b) in files {
        h = fnv_add(h, n.as_bytes());
        h = fnv_add(h, b);
    }
    h
}

pub fn check(c: &mut Case, files: &Files, plan: &ArcPlan) {
    let reserved = files.iter().any(|(n, _)| n == "Count" || n == "Info" || n == "Data");
    let plan_owned;
    let plan = if reserved && plan.decoy_labels {
        plan_owned = ArcPlan { decoy_labels: false, ..plan.clone() };
        &plan_owned
    } else {
        plan
    };
    if reserved {
        c.sit("file_named_like_a_reserved_label");
    }
    let mut rng = c.rng.clone();
    let img = arc_build(files, plan, &mut rng);
    c.rng = rng;
    let broken = plan.drop_count_label || plan.drop_info_label || plan.nameless_record.is_some() || plan.out_of_range_record.is_some();
    c.sit(if plan.padded_header { "padded_header" } else { "no_padded_header" });
    if files.iter().any(|(_, b)| b.is_empty()) {
        c.sit("empty_file");
    }
    if plan.tables_first {
        c.sit("tables_before_bodies");
        if !broken && files.iter().any(|(_, b)| b.is_empty()) {
            c.sit("tables_before_bodies_with_empty_file");
        }
    }
    if plan.shuffle_records && plan.shuffle_bodies && files.len() >= 2 {
        c.sit("record_order_differs_from_body_order");
        if !broken {
            c.nontrivial(fp(files, plan));
        }
    }
    let img_t = crate::monitor::tight(&img);
    let r = match c.lib("arc::from_bytes", || arc::from_bytes(&img_t)) {
        None => return,
        Some(r) => r,
    };
    let ctx = || format!("plan={:?} {} image={}", plan, describe(files), hex_short(&img, 200));
    if broken {
        let why = if plan.drop_count_label {
            "no_count_label"
        } else if plan.drop_info_label {
            "no_info_label"
        } else if plan.nameless_record.is_some() {
            "record_without_name"
        } else {
            "record_range_outside_data"
        };
        c.sit(why);
        if let Ok(m) = r {
            c.fail("malformed_accepted", &format!("malformed_accepted:{}", why), format!("arc image with {} was accepted ({} files returned); {}", why, m.len(), ctx()));
        }
        return;
    }
    match r {
        Err(e) => c.fail("conforming_rejected", "conforming_rejected", format!("conforming arc rejected with Err({}); {}", e, ctx())),
        Ok(m) => {
            if m.len() != files.len() {
                c.fail("wrong_files", "wrong_files", format!("{} entries returned, expected {}; {}", m.len(), files.len(), ctx()));
                return;
            }
            for (n, b) in files {
                match m.get(n) {
                    None => {
                        c.fail("wrong_files", "wrong_files", format!("file {:?} missing from the result; {}", n, ctx()));
                        return;
                    }
                    Some(g) if g != b => {
                        c.fail("wrong_files", "wrong_files", format!("file {:?}: {} bytes returned, expected {} (first difference at {:?}); {}", n, g.len(), b.len(), g.iter().zip(b.iter()).position(|(x, y)| x != y), ctx()));
                        return;
                    }
                    _ => {}
                }
            }
            c.sample(if plan.padded_header { "conforming_padded" } else { "conforming_unpadded" }, || {
                J::obj(vec![("files", J::s(describe(files))), ("plan", J::s(format!("{:?}", plan))), ("image_hex", J::s(hex_short(&img, 160))), ("observed", J::s("one entry per record, bytes equal to the recorded ranges"))])
            });
        }
    }
}

fn gen_arc_files(rng: &mut Rng, miri: bool) -> Files {
    let mut f = gen_files(rng, if miri { 3 } else { 20 }, if miri { 24 } else { 2048 });
    // names: non-empty, no NUL, never `Count` / `Info` (label lookup would be ambiguous)
    let mut i = 0;
    // (at most one file may have the empty name: names are distinct)
    let keep_empty = rng.chance(1, 3);
    f.retain(|(n, _)| (keep_empty || !n.is_empty()) && n != "Count" && n != "Info" && n != "Data");
    if !miri && rng.chance(1, 20) {
        // file names equal (or close) to the labels the format itself uses; `check` switches the
        // decoy labels off for these, so that the label lookup stays unambiguous
        for n in ["Count", "Info", "Data", "count", "Info ", "Coun", "InfoX"] {
            if rng.chance(1, 3) && !f.iter().any(|(x, _)| x == n) {
                f.push((n.to_string(), rng.bytes(5)));
            }
        }
    }
    for (_, b) in f.iter_mut() {
        i += 1;
        if i % 5 == 0 {
            b.truncate(rng.range(0, 5));
        }
    }
    f
}

pub const REQUIRED: &[&str] = &["padded_header", "no_padded_header", "empty_file", "record_order_differs_from_body_order", "no_count_label", "no_info_label", "record_without_name", "record_range_outside_data", "tables_before_bodies", "tables_before_bodies_with_empty_file", "last_body_ends_data_region_aligned", "empty_file_at_end_of_data", "poisoned_by_failing_calls_first"];

pub fn run(cx: &mut Ctx) {
    cx.require(REQUIRED);
    cx.rule = "arc images are built by the reference builder on top of the reference bin-archive writer: 0..=20 files with distinct names, sizes {0,1,3,4,5, random <= 2 KiB}, with/without the 0x60 zero header, tables before or after the bodies (so the last body can end the data region, incl. an empty file at the very end), record order and body order shuffled independently, gaps between bodies, decoy labels (Data, per-record name labels as in the sample file), canonical or permuted archive layout; error variants: no Count label, no Info label, a record without a name string, a record whose range leaves the data region (size too big, offset beyond the end, offset + 0x60 overflowing 32 bits). non-trivial = >=2 files with record order != body order; 1023..65537 records; bodies of 4095..1 MiB bytes around multiples of 4 KiB; arcs without files lacking a label; distinct by (files, plan) hash".into();
    let miri = cfg!(miri);
    cx.case("directed", |c| {
        let files: Files = vec![("ArcTest1.bin".into(), vec![1, 2, 3, 4, 5]), ("ArcTest1.bin.lz".into(), vec![]), ("日本.bin".into(), vec![9; 7])];
        for padded in [false, true] {
            let base = ArcPlan { padded_header: padded, decoy_labels: true, ..Default::default() };
            check(c, &files, &base);
            check(c, &vec![], &base);
            check(c, &files, &ArcPlan { shuffle_bodies: true, shuffle_records: true, gaps: true, ..base.clone() });
            // tables first: the last body is flush with the end of the data region
            let tf = ArcPlan { tables_first: true, ..base.clone() };
            c.sit("last_body_ends_data_region_aligned");
            check(c, &vec![("a.bin".to_string(), vec![1u8; 8]), ("b.bin".to_string(), vec![2u8; 16])], &tf);
            check(c, &vec![("a.bin".to_string(), vec![1u8; 5]), ("b.bin".to_string(), vec![2u8; 3])], &tf);
            c.sit("empty_file_at_end_of_data");
            check(c, &vec![("a.bin".to_string(), vec![1u8; 8]), ("empty.bin".to_string(), vec![])], &tf);
            check(c, &vec![("only_empty.bin".to_string(), vec![])], &tf);
            check(c, &files, &ArcPlan { tables_first: true, shuffle_records: true, ..base.clone() });
            // the Count word at the very end of the data, far from the Info table
            check(c, &files, &ArcPlan { count_far: true, ..base.clone() });
            check(c, &files, &ArcPlan { count_far: true, tables_first: true, ..base.clone() });
            check(c, &files, &ArcPlan { drop_count_label: true, ..base.clone() });
            check(c, &files, &ArcPlan { drop_info_label: true, ..base.clone() });
            // the same for an arc with no files at all (Count = 0): still an error
            check(c, &vec![], &ArcPlan { drop_count_label: true, ..base.clone() });
            check(c, &vec![], &ArcPlan { drop_info_label: true, ..base.clone() });
            for slot in 0..3 {
                check(c, &files, &ArcPlan { nameless_record: Some(slot), ..base.clone() });
                for _ in 0..6 {
                    check(c, &files, &ArcPlan { out_of_range_record: Some(slot), ..base.clone() });
                }
            }
        }
    });
    if !miri {
        // thresholds: record counts around 4096 / 65536 and body sizes around multiples of 4 KiB
        for (k, count) in [1023usize, 1024, 1025, 4095, 4096, 4097, 5000, 65535, 65536, 65537].into_iter().enumerate() {
            if count > 6000 && cx.a.quick() && k % 2 == 0 {
                continue;
            }
            cx.case("many_records", |c| {
                c.sit("record_count_around_4096_or_65536");
                let files: Files = (0..count).map(|i| (format!("f{:05}.bin", i), vec![(i % 251) as u8; i % 4])).collect();
                let mut rng = c.rng.clone();
                let plan = ArcPlan { padded_header: rng.bool(), shuffle_records: rng.bool(), tables_first: rng.bool(), ..Default::default() };
                c.rng = rng;
                check(c, &files, &plan);
            });
        }
        // many records over one shared body: far more bytes extracted than the image holds
        cx.case("many_records_one_body", |c| {
            c.sit("many_records_share_one_body");
            let mut rng = c.rng.clone();
            let body = rng.bytes(8192);
            let files: Files = (0..1100).map(|i| (format!("alias{:04}.bin", i), body.clone())).collect();
            let plan = ArcPlan { share_bodies: true, padded_header: rng.bool(), tables_first: rng.bool(), ..Default::default() };
            c.rng = rng;
            check(c, &files, &plan);
        });
        for size in [4095usize, 4096, 4097, 8191, 8192, 8193, 12288, 65535, 65536, 65537, 1 << 20] {
            cx.case("body_size_thresholds", |c| {
                c.sit("body_size_around_multiples_of_4096");
                let mut rng = c.rng.clone();
                let files: Files = vec![("head.bin".into(), rng.bytes(3)), ("big.bin".into(), rng.bytes(size)), ("tail.bin".into(), rng.bytes(4096))];
                let plan = ArcPlan { padded_header: rng.bool(), shuffle_bodies: rng.bool(), tables_first: rng.bool(), ..Default::default() };
                c.rng = rng;
                check(c, &files, &plan);
            });
        }
    }
    let n = cx.a.n(1_000_000, 4_000_000);
    for _ in 0..n {
        cx.case("random", |c| {
            super::poison::maybe(c, 9);
            let mut rng = c.rng.clone();
            let files = gen_arc_files(&mut rng, miri);
            let mut plan = ArcPlan { padded_header: rng.bool(), shuffle_bodies: rng.bool(), shuffle_records: rng.bool(), gaps: rng.bool(), decoy_labels: rng.bool(), tables_first: rng.chance(1, 3), count_far: rng.chance(1, 4), share_bodies: rng.chance(1, 4), ..Default::default() };
            if files.is_empty() {
                match rng.below(6) {
                    0 => plan.drop_count_label = true,
                    1 => plan.drop_info_label = true,
                    _ => {}
                }
            }
            if !files.is_empty() {
                match rng.below(10) {
                    0 => plan.drop_count_label = true,
                    1 => plan.drop_info_label = true,
                    2 => plan.nameless_record = Some(rng.below(files.len())),
                    3 => plan.out_of_range_record = Some(rng.below(files.len())),
                    _ => {}
                }
            }
            c.rng = rng;
            check(c, &files, &plan);
        });
    }
}
