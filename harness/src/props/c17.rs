//! C17 — animation-set file round trip.
use crate::ctx::{Case, Ctx};
use crate::json::{hex_short, J};
use crate::prng::{fnv, fnv_add, Rng};
use crate::refs::image;
use crate::refs::strings::{gen_ident, gen_sjis};
use mila::{ASetFile, BinArchive, Endian};

#[derive(Clone, Debug, PartialEq)]
pub struct ASet {
    pub meta: Option<String>,
    pub clips: Vec<Option<String>>,
    pub sets: Vec<Vec<Option<String>>>,
}

fn to_lib(a: &ASet) -> ASetFile {
    let mut f = ASetFile::new(a.meta.clone());
    f.anim_clip_table = a.clips.clone();
    f.sets = a.sets.clone();
    f
}
fn from_lib(f: &ASetFile) -> ASet {
    ASet { meta: f.meta.clone(), clips: f.anim_clip_table.clone(), sets: f.sets.clone() }
}

fn describe(a: &ASet) -> String {
    let sets: Vec<String> = a
        .sets
        .iter()
        .take(4)
        .map(|s| {
            let present: Vec<usize> = (1..s.len()).filter(|i| s[*i].is_some()).collect();
            format!("{{label:{:?}, {} slots present{}}}", s[0], present.len(), if present.len() <= 6 { format!(" {:?}", present) } else { String::new() })
        })
        .collect();
    format!("meta={:?}, clips present={}, {} sets [{}{}]", a.meta, a.clips.iter().filter(|c| c.is_some()).count(), a.sets.len(), sets.join(", "), if a.sets.len() > 4 { ", ..." } else { "" })
}

fn diff(a: &ASet, b: &ASet) -> Option<String> {
    if a.meta != b.meta {
        return Some(format!("meta: expected {:?} got {:?}", a.meta, b.meta));
    }
    if a.clips.len() != b.clips.len() {
        return Some(format!("clip table length: expected {} got {}", a.clips.len(), b.clips.len()));
    }
    for i in 0..a.clips.len() {
        if a.clips[i] != b.clips[i] {
            return Some(format!("clip name #{}: expected {:?} got {:?}", i, a.clips[i], b.clips[i]));
        }
    }
    if a.sets.len() != b.sets.len() {
        return Some(format!("number of sets: expected {} got {}", a.sets.len(), b.sets.len()));
    }
    for (k, (x, y)) in a.sets.iter().zip(b.sets.iter()).enumerate() {
        if x.len() != y.len() {
            return Some(format!("set #{} has {} entries, expected {}", k, y.len(), x.len()));
        }
        for i in 0..x.len() {
            if x[i] != y[i] {
                return Some(format!("set #{} {}: expected {:?} got {:?}", k, if i == 0 { "label".to_string() } else { format!("slot {} (group {}, bit {})", i - 1, (i - 1) / 32, (i - 1) % 32) }, x[i], y[i]));
            }
        }
    }
    None
}

/// Independent reader of the serialized image.
fn ref_read(img: &[u8]) -> Result<(ASet, usize), String> {
    let p = image::parse_strict(img, false)?;
    let d = &p.arch.data;
    let u32at = |at: usize| -> Result<u32, String> { image::get32(d, at, false).ok_or_else(|| format!("data ends inside a word at {:#x}", at)) };
    if !p.arch.labels.get(&12).map(|l| l.iter().any(|x| x == "AnimClipNameTable")).unwrap_or(false) {
        return Err("no AnimClipNameTable label at 0xC".into());
    }
    let meta = p.arch.text.get(&4).cloned();
    let mut clips = Vec::new();
    for i in 0..257 {
        if 12 + 4 * i + 4 > d.len() {
            return Err("clip table truncated".into());
        }
        clips.push(p.arch.text.get(&(12 + 4 * i)).cloned());
    }
    let mut pos = 12 + 257 * 4;
    let mut sets = Vec::new();
    while pos < d.len() {
        let mut set: Vec<Option<String>> = Vec::with_capacity(257);
        set.push(p.arch.labels.get(&pos).and_then(|l| l.first().cloned()));
        let main = u32at(pos)?;
        pos += 4;
        if main >> 8 != 0 {
            return Err(format!("set at {:#x}: group mask {:#x} has bits above 7", pos - 4, main));
        }
        for g in 0..8 {
            if main & (1 << g) != 0 {
                let flags = u32at(pos)?;
                pos += 4;
                if flags == 0 {
                    return Err(format!("set at group {}: an entirely absent group is stored", g));
                }
                for bit in 0..32 {
                    if flags & (1 << bit) != 0 {
                        if pos + 4 > d.len() {
                            return Err("slot beyond data".into());
                        }
                        let s = p.arch.text.get(&pos).cloned().ok_or_else(|| format!("present slot at {:#x} holds no string", pos))?;
                        set.push(Some(s));
                        pos += 4;
                    } else {
                        set.push(None);
                    }
                }
            } else {
                for _ in 0..32 {
                    set.push(None);
                }
            }
        }
        sets.push(set);
    }
    Ok((ASet { meta, clips, sets }, p.data_size))
}

pub fn check(c: &mut Case, a: &ASet, name: &str) {
    let lib = to_lib(a);
    let img = match c.lib_stable("ASetFile::serialize", || lib.serialize().map_err(|e| e.to_string())) {
        None => return,
        Some(Err(e)) => {
            let un = |s: &Option<String>| s.as_deref().map(crate::refs::strings::unencodable).unwrap_or(false);
            if un(&a.meta) || a.clips.iter().any(un) || a.sets.iter().any(|s| s.iter().any(un)) {
                c.outcome("serialize_refused_unencodable_text");
            } else {
                c.fail("serialize_err", "serialize_err", format!("{}: serialize returned Err({}); {}", name, e, describe(a)));
            }
            return;
        }
        Some(Ok(b)) => b,
    };
    // size formula + independent reader
    let mut expect_size = 12 + 257 * 4;
    for s in &a.sets {
        let mut groups = 0;
        let mut slots = 0;
        for g in 0..8 {
            let n = (0..32).filter(|b| s[1 + g * 32 + b].is_some()).count();
            if n > 0 {
                groups += 1;
            }
            slots += n;
        }
        expect_size += 4 * (1 + groups + slots);
    }
    match ref_read(&img) {
        Err(e) => c.fail("image", "image_malformed", format!("{}: serialized image: {}; {} image={}", name, e, describe(a), hex_short(&img, 200))),
        Ok((r, data_size)) => {
            if data_size != expect_size {
                c.fail("image", "image_size", format!("{}: data region is {} bytes, expected {} (absent slots cost nothing, empty groups omitted); {}", name, data_size, expect_size, describe(a)));
            }
            if let Some(d) = diff(a, &r) {
                c.fail("image", "image_content", format!("{}: independent reader finds different content in the image: {}; {}", name, d, describe(a)));
            }
        }
    }
    // library round trip
    let back = c.lib("BinArchive::from_bytes + ASetFile::from_archive", || -> Result<ASetFile, String> {
        let img_t = crate::monitor::tight(&img);
        let arch = BinArchive::from_bytes(&img_t, Endian::Little).map_err(|e| e.to_string())?;
        ASetFile::from_archive(&arch).map_err(|e| e.to_string())
    });
    match back {
        None => {}
        Some(Err(e)) => c.fail("roundtrip", "reparse_err", format!("{}: re-reading the serialized file failed: {}; {}", name, e, describe(a))),
        Some(Ok(f)) => {
            if let Some(d) = diff(a, &from_lib(&f)) {
                c.fail("roundtrip", "roundtrip", format!("{}: round trip changed the value: {}; {}", name, d, describe(a)));
            }
            match c.lib("ASetFile::serialize (re-read)", || f.serialize()) {
                Some(Ok(img2)) => {
                    if img2 != img {
                        c.fail("byte_stable", "not_byte_stable", format!("{}: re-serializing the re-read value gives different bytes (first difference at {:?}); {}", name, img2.iter().zip(img.iter()).position(|(x, y)| x != y), describe(a)));
                    }
                }
                Some(Err(e)) => c.fail("byte_stable", "reserialize_err", format!("{}: re-serialize failed: {}", name, e)),
                None => {}
            }
        }
    }
    let masks: std::collections::HashSet<u8> = a.sets.iter().map(|s| (0..8).fold(0u8, |m, g| if (0..32).any(|b| s[1 + g * 32 + b].is_some()) { m | 1 << g } else { m })).collect();
    if a.sets.len() >= 2 && masks.len() >= 2 {
        let mut h = fnv(format!("{:?}", a.meta).as_bytes());
        for s in &a.sets {
            for x in s {
                h = fnv_add(h, format!("{:?}", x).as_bytes());
            }
        }
        c.nontrivial(h);
    }
    c.sample(name, || J::obj(vec![("value", J::s(describe(a))), ("image_len", J::U(img.len() as u64)), ("data_region", J::U(expect_size as u64)), ("observed", J::s("independent reader equal; size formula exact; library round trip equal; re-serialization byte-identical"))]));
}

fn empty_set(label: Option<String>) -> Vec<Option<String>> {
    let mut s = vec![None; 257];
    s[0] = label;
    s
}

pub fn gen(rng: &mut Rng, miri: bool) -> ASet {
    let name = |rng: &mut Rng| -> String {
        if rng.chance(1, 40) {
            // names the format's own tooling uses as placeholders, and near misses
            return rng.pick(&["none1", "none2", "none", "None1", "NULL", "AnimClipNameTable", "none1 "]).to_string();
        }
        match rng.below(5) {
            0 => String::new(),
            1 => gen_sjis(rng, 6),
            _ => gen_ident(rng, 8),
        }
    };
    let meta = match rng.below(3) {
        0 => None,
        1 => Some(String::new()),
        _ => Some(gen_sjis(rng, 8)),
    };
    let clip_density = rng.range(0, 100);
    let clips: Vec<Option<String>> = (0..257).map(|_| if rng.below(100) < clip_density { Some(name(rng)) } else { None }).collect();
    let nsets = if miri { rng.range(0, 2) } else { rng.range(0, 12) };
    let mut sets = Vec::new();
    for _ in 0..nsets {
        let label = match rng.below(8) {
            0 | 1 => None,
            2 => Some(String::new()), // present but empty
            3 => Some(if rng.chance(1, 4) { rng.pick(&["animclipnametable", "ANIMCLIPNAMETABLE", "AnimClipNameTable ", "AnimClipNameTabl"]).to_string() } else { "AS_shared".to_string() }), // the same label on several sets; near misses of the reserved label
            _ => Some(format!("AS_{}", gen_ident(rng, 6))),
        };
        let mut s = empty_set(label);
        match rng.below(7) {
            0 => {}
            1 => {
                for i in 1..257 {
                    s[i] = Some(name(rng));
                }
            }
            2 => {
                s[1 + rng.below(256)] = Some(name(rng));
            }
            3 => {
                let g = rng.below(8);
                s[1 + g * 32 + 31] = Some(name(rng));
            }
            _ => {
                let density = *rng.pick(&[1usize, 10, 50, 90]);
                for i in 1..257 {
                    if rng.below(100) < density {
                        s[i] = Some(name(rng));
                    }
                }
            }
        }
        sets.push(s);
    }
    let mut a = ASet { meta, clips, sets };
    if rng.chance(1, 25) {
        // two distinct names that collide under a common hash function; or the clip names as one
        // numbered family
        if rng.bool() {
            let (x, y) = *rng.pick(&crate::refs::strings::COLLIDING_PAIRS);
            let i = rng.below(257);
            let j = (i + 1 + rng.below(256)) % 257;
            a.clips[i] = Some(x.to_string());
            a.clips[j] = Some(y.to_string());
            if !a.sets.is_empty() && rng.bool() {
                let k = rng.below(a.sets.len());
                let slot = 1 + rng.below(256);
                a.sets[k][slot] = Some(y.to_string());
                a.sets[k][0] = Some(x.to_string());
            }
        } else {
            let base = rng.range(250, 330);
            for (i, cl) in a.clips.iter_mut().enumerate() {
                if i % 2 == 0 || cl.is_some() {
                    *cl = Some(format!("MID_{:05}", base + i));
                }
            }
        }
    }
    if rng.chance(1, 60) {
        // one name the Shift-JIS encoder cannot express: serialize must refuse it or keep it intact
        let u = Some(rng.pick(&crate::refs::strings::UNENCODABLE).to_string());
        match rng.below(3) {
            0 => a.meta = u,
            1 => {
                let i = rng.below(257);
                a.clips[i] = u;
            }
            _ => {
                if !a.sets.is_empty() {
                    let i = rng.below(a.sets.len());
                    let k = rng.below(257);
                    a.sets[i][k] = u;
                }
            }
        }
    }
    a
}

pub const REQUIRED: &[&str] = &["every_single_slot", "no_sets", "empty_set", "full_set", "unlabelled_set", "only_bit_31", "only_group_7", "poisoned_by_failing_calls_first", "set_count_around_256_1024_4096"];

pub fn run(cx: &mut Ctx) {
    cx.require(REQUIRED);
    cx.rule = "meta in {None, Some(\"\"), text}; 257 clip names with random presence; 0..=12 sets with optional label and slot patterns: empty, full, one slot at each of the 256 positions in turn (directed, exhaustive), only bit 31 of a group, only group 7, random density 1/10/50/90 %; names incl. the empty string and 2-byte characters. Each value is serialized, read by an independent reader on top of the strict reference archive reader, checked against the size formula 12+257*4+sum 4*(1+nonempty_groups+present_slots), re-read by the library and re-serialized. non-trivial = >=2 sets with different group masks; files with 255..4097 sets; one name the Shift-JIS encoder cannot express in 1 of 60 cases (must be refused or kept intact); distinct by value hash".into();
    let miri = cfg!(miri);
    let base = ASet { meta: Some("meta".into()), clips: vec![None; 257], sets: vec![] };
    cx.case("no_sets", |c| {
        c.sit("no_sets");
        check(c, &base, "no_sets");
        let mut b = base.clone();
        b.meta = None;
        check(c, &b, "no_sets_no_meta");
        b.meta = Some(String::new());
        b.clips = (0..257).map(|i| Some(format!("clip{}", i))).collect();
        check(c, &b, "full_clip_table");
    });
    cx.case("empty_and_full_sets", |c| {
        c.sit("empty_set");
        c.sit("full_set");
        c.sit("unlabelled_set");
        let mut b = base.clone();
        b.sets.push(empty_set(Some("A".into())));
        b.sets.push(empty_set(None));
        let mut full = empty_set(Some("Full".into()));
        for i in 1..257 {
            full[i] = Some(format!("s{}", i));
        }
        b.sets.push(full);
        b.sets.push(empty_set(Some("A".into())));
        check(c, &b, "empty_and_full_sets");
        // a label that is present but empty, first and in the middle
        let mut e = base.clone();
        e.sets.push(empty_set(Some(String::new())));
        let mut one = empty_set(None);
        one[5] = Some(String::new());
        e.sets.push(one);
        e.sets.push(empty_set(Some(String::new())));
        check(c, &e, "empty_string_labels");
    });
    let step = if miri { 101 } else { 1 };
    for slot in (0..256).step_by(step) {
        cx.case("every_single_slot", |c| {
            c.sit("every_single_slot");
            if slot % 32 == 31 {
                c.sit("only_bit_31");
            }
            if slot / 32 == 7 {
                c.sit("only_group_7");
            }
            let mut b = base.clone();
            let mut s = empty_set(Some("One".into()));
            s[1 + slot] = Some("x".into());
            b.sets.push(s);
            // a second set, so that a wrong width shifts something visible
            let mut t = empty_set(Some("Two".into()));
            t[1] = Some("y".into());
            t[256] = Some("z".into());
            b.sets.push(t);
            check(c, &b, "single_slot");
        });
    }
    if !miri {
        // a name of a little more than 1 MiB (slot name, clip name, set label, meta in turn)
        cx.case("name_longer_than_1MiB", |c| {
            c.sit("name_longer_than_1MiB");
            let long: String = (0..(1usize << 20) + 16).map(|i| (b'a' + (i % 21) as u8) as char).collect();
            for place in 0..4 {
                let mut a = base.clone();
                let mut s = empty_set(Some("AS_long".into()));
                s[5] = Some("short".into());
                match place {
                    0 => s[200] = Some(long.clone()),
                    1 => a.clips[100] = Some(long.clone()),
                    2 => s[0] = Some(long.clone()),
                    _ => a.meta = Some(long.clone()),
                }
                a.sets.push(s);
                check(c, &a, "name_longer_than_1MiB");
            }
        });
        // set labels that are long (so the label names take more room than everything in front of the
        // text section) and that also occur as clip / slot names and as the meta string
        cx.case("long_labels_that_are_also_names", |c| {
            c.sit("long_labels_that_are_also_names");
            for (nsets, len) in [(1usize, 1500usize), (3, 700), (2, 5000), (6, 300)] {
                let mut a = base.clone();
                let labels: Vec<String> = (0..nsets).map(|k| format!("AS_{}_{}", k, "L".repeat(len + 13 * k))).collect();
                for (k, l) in labels.iter().enumerate() {
                    let mut s = empty_set(Some(l.clone()));
                    s[1 + k] = Some(labels[(k + 1) % nsets].clone());
                    s[40] = Some("plain".into());
                    s[256] = Some(l.clone());
                    a.sets.push(s);
                }
                a.clips[3] = Some(labels[0].clone());
                a.clips[256] = Some("AnimClipNameTable".into());
                a.meta = Some(labels[nsets - 1].clone());
                check(c, &a, "long_labels_that_are_also_names");
            }
        });
        // label-name offsets swept across the size of everything in front of the text section: a
        // name's offset inside the text section and a string's absolute position are different
        // number spaces that overlap here
        cx.case("label_name_offsets_sweep", |c| {
            c.sit("label_name_offsets_sweep");
            for l in (1000usize..1200).chain(2040..2100) {
                let mut a = base.clone();
                a.meta = Some("walk".into());
                a.sets.push(empty_set(Some("walk".into())));
                a.sets.push(empty_set(Some("y".repeat(l))));
                let mut v = empty_set(Some("victim".into()));
                if l % 2 == 0 {
                    v[9] = Some("victim".into());
                    a.clips[7] = Some("walk".into());
                }
                a.sets.push(v);
                check(c, &a, "label_name_offsets_sweep");
            }
            c.eval(260);
        });
        // thresholds: set counts at and around 256 / 1024 / 4096
        for count in [255usize, 256, 257, 1023, 1024, 1025, 4095, 4096, 4097] {
            cx.case("set_count_thresholds", |c| {
                c.sit("set_count_around_256_1024_4096");
                let mut rng = c.rng.clone();
                let mut a = gen(&mut rng, true);
                let protos: Vec<Vec<Option<String>>> = (0..5)
                    .map(|k| {
                        let mut s = empty_set(None);
                        for i in 1..257 {
                            if (i * 7 + k) % (9 + k * 17) == 0 {
                                s[i] = Some(format!("c{}", i % 10));
                            }
                        }
                        s
                    })
                    .collect();
                a.sets = (0..count)
                    .map(|k| {
                        let mut s = protos[k % protos.len()].clone();
                        s[0] = if k % 11 == 0 { None } else { Some(format!("AS_{}", k)) };
                        s
                    })
                    .collect();
                check(c, &a, "set_count_thresholds");
            });
        }
    }
    let n = cx.a.n(40_000, 400_000);
    for _ in 0..n {
        cx.case("random", |c| {
            super::poison::maybe(c, 5);
            let mut rng = c.rng.clone();
            let a = gen(&mut rng, miri);
            check(c, &a, "random");
        });
    }
}
