//! C18 — asset-binary round trip preserves every field of every spec.
use crate::ctx::{Case, Ctx};
use crate::json::{hex_short, J};
use crate::prng::{fnv, fnv_add, Rng};
use crate::refs::image;
use crate::refs::strings::{gen_ident, gen_sjis};
use mila::{AssetBinary, AssetSpec, BinArchive, Endian};

pub const NSTR: usize = 33;
pub const NTYPED: usize = 18;

pub const STR_NAMES: [&str; NSTR] = [
    "conditional1", "conditional2", "body_model", "body_texture", "head_model", "head_texture", "hair_model", "hair_texture",
    "outer_clothing_model", "outer_clothing_texture", "underwear_model", "underwear_texture", "mount_model", "mount_texture",
    "mount_outer_clothing_model", "mount_outer_clothing_texture", "weapon_model_dual", "weapon_model", "skeleton", "mount_skeleton",
    "accessory1_model", "accessory1_texture", "accessory2_model", "accessory2_texture", "accessory3_model", "accessory3_texture",
    "attack_animation", "attack_animation2", "visual_effect", "hid", "footstep_sound", "clothing_sound", "voice",
];
pub const TYPED_NAMES: [&str; NTYPED] = [
    "hair_color", "skin_color", "weapon_trail_color", "model_size", "head_size", "pupil_y", "unk3", "unk4", "unk5", "unk6", "bitflags", "unk7",
    "unk8", "unk9", "unk10", "unk11", "unk12", "unk13",
];

pub fn str_field(s: &mut AssetSpec, i: usize) -> &mut Option<String> {
    match i {
        0 => &mut s.conditional1,
        1 => &mut s.conditional2,
        2 => &mut s.body_model,
        3 => &mut s.body_texture,
        4 => &mut s.head_model,
        5 => &mut s.head_texture,
        6 => &mut s.hair_model,
        7 => &mut s.hair_texture,
        8 => &mut s.outer_clothing_model,
        9 => &mut s.outer_clothing_texture,
        10 => &mut s.underwear_model,
        11 => &mut s.underwear_texture,
        12 => &mut s.mount_model,
        13 => &mut s.mount_texture,
        14 => &mut s.mount_outer_clothing_model,
        15 => &mut s.mount_outer_clothing_texture,
        16 => &mut s.weapon_model_dual,
        17 => &mut s.weapon_model,
        18 => &mut s.skeleton,
        19 => &mut s.mount_skeleton,
        20 => &mut s.accessory1_model,
        21 => &mut s.accessory1_texture,
        22 => &mut s.accessory2_model,
        23 => &mut s.accessory2_texture,
        24 => &mut s.accessory3_model,
        25 => &mut s.accessory3_texture,
        26 => &mut s.attack_animation,
        27 => &mut s.attack_animation2,
        28 => &mut s.visual_effect,
        29 => &mut s.hid,
        30 => &mut s.footstep_sound,
        31 => &mut s.clothing_sound,
        _ => &mut s.voice,
    }
}

/// (present flag, value as 32 raw bits in a field-specific but bijective encoding)
pub fn typed_get(s: &AssetSpec, i: usize) -> (bool, u32) {
    let col = |c: &[u8; 4]| u32::from_le_bytes(*c);
    match i {
        0 => (s.use_hair_color, col(&s.hair_color)),
        1 => (s.use_skin_color, col(&s.skin_color)),
        2 => (s.use_weapon_trail_color, col(&s.weapon_trail_color)),
        3 => (s.use_model_size, s.model_size.to_bits()),
        4 => (s.use_head_size, s.head_size.to_bits()),
        5 => (s.use_pupil_y, s.pupil_y.to_bits()),
        6 => (s.use_unk3, s.unk3),
        7 => (s.use_unk4, s.unk4),
        8 => (s.use_unk5, s.unk5),
        9 => (s.use_unk6, s.unk6),
        10 => (s.use_bitflags, col(&s.bitflags)),
        11 => (s.use_unk7, s.unk7),
        12 => (s.use_unk8, s.unk8),
        13 => (s.use_unk9, s.unk9),
        14 => (s.use_unk10, s.unk10),
        15 => (s.use_unk11, s.unk11),
        16 => (s.use_unk12, s.unk12),
        _ => (s.use_unk13, s.unk13),
    }
}

pub fn typed_set(s: &mut AssetSpec, i: usize, present: bool, bits: u32) {
    let col = bits.to_le_bytes();
    match i {
        0 => {
            s.use_hair_color = present;
            s.hair_color = col
        }
        1 => {
            s.use_skin_color = present;
            s.skin_color = col
        }
        2 => {
            s.use_weapon_trail_color = present;
            s.weapon_trail_color = col
        }
        3 => {
            s.use_model_size = present;
            s.model_size = f32::from_bits(bits)
        }
        4 => {
            s.use_head_size = present;
            s.head_size = f32::from_bits(bits)
        }
        5 => {
            s.use_pupil_y = present;
            s.pupil_y = f32::from_bits(bits)
        }
        6 => {
            s.use_unk3 = present;
            s.unk3 = bits
        }
        7 => {
            s.use_unk4 = present;
            s.unk4 = bits
        }
        8 => {
            s.use_unk5 = present;
            s.unk5 = bits
        }
        9 => {
            s.use_unk6 = present;
            s.unk6 = bits
        }
        10 => {
            s.use_bitflags = present;
            s.bitflags = col
        }
        11 => {
            s.use_unk7 = present;
            s.unk7 = bits
        }
        12 => {
            s.use_unk8 = present;
            s.unk8 = bits
        }
        13 => {
            s.use_unk9 = present;
            s.unk9 = bits
        }
        14 => {
            s.use_unk10 = present;
            s.unk10 = bits
        }
        15 => {
            s.use_unk11 = present;
            s.unk11 = bits
        }
        16 => {
            s.use_unk12 = present;
            s.unk12 = bits
        }
        _ => {
            s.use_unk13 = present;
            s.unk13 = bits
        }
    }
}

pub fn spec_diff(a: &AssetSpec, b: &AssetSpec) -> Option<String> {
    if a.name != b.name {
        return Some(format!("name: expected {:?} got {:?}", a.name, b.name));
    }
    let (mut a2, mut b2) = (a.clone(), b.clone());
    for i in 0..NSTR {
        let (x, y) = (str_field(&mut a2, i).clone(), str_field(&mut b2, i).clone());
        if x != y {
            return Some(format!("{}: expected {:?} got {:?}", STR_NAMES[i], x, y));
        }
    }
    for i in 0..NTYPED {
        let (pa, va) = typed_get(a, i);
        let (pb, vb) = typed_get(b, i);
        if pa != pb {
            return Some(format!("presence of {}: expected {} got {}", TYPED_NAMES[i], pa, pb));
        }
        // the value of an absent field is not stored, so it is only compared when present
        if pa && va != vb {
            return Some(format!("{}: expected bits {:#010x} got {:#010x}", TYPED_NAMES[i], va, vb));
        }
    }
    None
}

pub fn spec_describe(s: &AssetSpec) -> String {
    let mut s2 = s.clone();
    let strs: Vec<String> = (0..NSTR).filter(|i| str_field(&mut s2, *i).is_some()).map(|i| STR_NAMES[i].to_string()).collect();
    let typed: Vec<String> = (0..NTYPED).filter(|i| typed_get(s, *i).0).map(|i| format!("{}={:#x}", TYPED_NAMES[i], typed_get(s, i).1)).collect();
    format!("{{name:{:?}, strings:[{}], typed:[{}]}}", s.name, strs.join(","), typed.join(","))
}

fn has_extended(s: &AssetSpec) -> bool {
    s.clothing_sound.is_some() || s.voice.is_some() || (0..NTYPED).any(|i| typed_get(s, i).0)
}
fn present_count(s: &AssetSpec) -> usize {
    let mut s2 = s.clone();
    (0..NSTR).filter(|i| str_field(&mut s2, *i).is_some()).count() + (0..NTYPED).filter(|i| typed_get(s, *i).0).count()
}

pub fn check(c: &mut Case, flags: u32, specs: &[AssetSpec], name: &str) {
    let describe = || {
        let shown: Vec<String> = specs.iter().take(3).map(spec_describe).collect();
        format!("flags={:#x}, {} specs [{}{}]", flags, specs.len(), shown.join(", "), if specs.len() > 3 { ", ..." } else { "" })
    };
    let mut bin = AssetBinary::new();
    bin.flags = flags;
    bin.specs = specs.to_vec();
    let img = match c.lib_stable("AssetBinary::serialize", || bin.serialize().map_err(|e| e.to_string())) {
        None => return,
        Some(Err(e)) => {
            let unrepresentable = specs.iter().any(|s| {
                let mut s = s.clone();
                s.name.as_deref().map(crate::refs::strings::unencodable).unwrap_or(false) || (0..NSTR).any(|i| str_field(&mut s, i).as_deref().map(crate::refs::strings::unencodable).unwrap_or(false))
            });
            if unrepresentable {
                c.outcome("serialize_refused_unencodable_text");
            } else {
                c.fail("serialize_err", "serialize_err", format!("{}: serialize returned Err({}); {}", name, e, describe()));
            }
            return;
        }
        Some(Ok(b)) => b,
    };
    // record walk on the image
    match image::parse_strict(&img, false) {
        Err(e) => c.fail("image", "image_malformed", format!("{}: serialized image is malformed: {}; {}", name, e, describe())),
        Ok(p) => {
            let d = &p.arch.data;
            let mut pos = 4usize;
            let mut ok = true;
            if image::get32(d, 0, false) != Some(flags) {
                c.fail("image", "image_flags", format!("{}: header flags in the image are {:?}, expected {:#x}", name, image::get32(d, 0, false), flags));
            }
            for (i, s) in specs.iter().enumerate() {
                if pos >= d.len() {
                    c.fail("image", "image_records", format!("{}: data region ends before record #{}; {}", name, i, describe()));
                    ok = false;
                    break;
                }
                let long = d[pos] & 1 == 1;
                let nflag = if long { 8 } else { 4 };
                if pos + nflag + 4 > d.len() {
                    c.fail("image", "image_records", format!("{}: record #{} truncated", name, i));
                    ok = false;
                    break;
                }
                let mut pop = 0usize;
                for k in 0..nflag {
                    let b = if k == 0 { d[pos] & 0xFE } else { d[pos + k] };
                    pop += b.count_ones() as usize;
                }
                if long != has_extended(s) {
                    c.fail("record_form", "record_form", format!("{}: record #{} uses the {} form but the spec {} extended fields; spec={}", name, i, if long { "long" } else { "short" }, if has_extended(s) { "has" } else { "has no" }, spec_describe(s)));
                    ok = false;
                    break;
                }
                if pop != present_count(s) {
                    c.fail("record_size", "record_bits", format!("{}: record #{} announces {} fields, the spec has {}; spec={}", name, i, pop, present_count(s), spec_describe(s)));
                    ok = false;
                    break;
                }
                // the name cell and every announced string cell must hold a string pointer (or nothing for an absent name)
                let size = nflag + 4 + 4 * pop;
                pos += size;
            }
            if ok {
                if pos + 4 != d.len() {
                    c.fail("record_size", "record_size", format!("{}: records occupy {} bytes but the data region has {} (expected records + 4 terminator bytes); {}", name, pos, d.len(), describe()));
                } else if d[pos..].iter().any(|b| *b != 0) {
                    c.fail("record_size", "terminator", format!("{}: the 4 bytes after the last record are not zero", name));
                }
            }
        }
    }
    // the other route: one spec at a time through AssetSpec::append / AssetSpec::from_stream
    for (i, s) in specs.iter().take(3).enumerate() {
        let r = c.lib("AssetSpec::append + AssetSpec::from_stream", || -> Result<AssetSpec, String> {
            let mut a = BinArchive::new(Endian::Little);
            s.append(&mut a).map_err(|e| e.to_string())?;
            let mut rd = mila::BinArchiveReader::new(&a, 0);
            AssetSpec::from_stream(&mut rd).map_err(|e| e.to_string())
        });
        match r {
            None => {}
            Some(Err(e)) => {
                let mut s2 = s.clone();
                let unrepresentable = s.name.as_deref().map(crate::refs::strings::unencodable).unwrap_or(false) || (0..NSTR).any(|k| str_field(&mut s2, k).as_deref().map(crate::refs::strings::unencodable).unwrap_or(false));
                if !unrepresentable {
                    c.fail("two_routes", "append_from_stream_err", format!("{}: spec #{} does not survive append + from_stream: {}; spec={}", name, i, e, spec_describe(s)));
                }
            }
            Some(Ok(t)) => {
                if let Some(d) = spec_diff(s, &t) {
                    c.fail("two_routes", "append_from_stream_differs", format!("{}: spec #{} changed through append + from_stream: {}; spec={}", name, i, d, spec_describe(s)));
                }
            }
        }
    }
    // round trip through the library
    let back = c.lib("BinArchive::from_bytes + AssetBinary::from_archive", || -> Result<AssetBinary, String> {
        let img_t = crate::monitor::tight(&img);
        let arch = BinArchive::from_bytes(&img_t, Endian::Little).map_err(|e| e.to_string())?;
        AssetBinary::from_archive(&arch).map_err(|e| e.to_string())
    });
    match back {
        None => {}
        Some(Err(e)) => c.fail("roundtrip", "reparse_err", format!("{}: re-reading failed: {}; {}", name, e, describe())),
        Some(Ok(b)) => {
            if b.flags != flags {
                c.fail("roundtrip", "roundtrip_flags", format!("{}: header flags {:#x} came back as {:#x}", name, flags, b.flags));
            }
            if b.specs.len() != specs.len() {
                c.fail("roundtrip", "roundtrip_count", format!("{}: {} specs came back, expected {}; {}", name, b.specs.len(), specs.len(), describe()));
            } else {
                for (i, (x, y)) in specs.iter().zip(b.specs.iter()).enumerate() {
                    if let Some(d) = spec_diff(x, y) {
                        c.fail("roundtrip", &format!("roundtrip_field:{}", d.split(':').next().unwrap_or("?")), format!("{}: spec #{} changed in the round trip: {}; spec={}", name, i, d, spec_describe(x)));
                        break;
                    }
                }
            }
            match c.lib("AssetBinary::serialize (re-read)", || b.serialize()) {
                Some(Ok(img2)) => {
                    if img2 != img {
                        c.fail("byte_stable", "not_byte_stable", format!("{}: re-serializing the re-read value gives different bytes (first difference at {:?}); {}", name, img2.iter().zip(img.iter()).position(|(x, y)| x != y), describe()));
                    }
                }
                Some(Err(e)) => c.fail("byte_stable", "reserialize_err", format!("{}: re-serialize failed: {}", name, e)),
                None => {}
            }
        }
    }
    if specs.windows(2).any(|w| has_extended(&w[0])) {
        let mut h = fnv(&flags.to_le_bytes());
        for s in specs {
            h = fnv_add(h, spec_describe(s).as_bytes());
        }
        c.nontrivial(h);
    }
    c.sample(name, || J::obj(vec![("value", J::s(describe())), ("image_hex", J::s(hex_short(&img, 160))), ("observed", J::s("record walk: form and size per record exact; library round trip equal field by field (f32 by bits); re-serialization byte-identical"))]));
}

const F32_BITS: [u32; 8] = [0, 0x8000_0000, 0x7F80_0000, 0xFF80_0000, 0x7FC0_1234, 0x7F80_0001, 0x0000_0001, 0x3F80_0000];

fn text(rng: &mut Rng) -> String {
    if rng.chance(1, 30) {
        // strings that look like placeholders or differ from each other only by case / a trailing blank
        return rng.pick(&["NULL", "null", "Null", "none", "None", "0", "-1", "NULL ", " NULL", "nullptr"]).to_string();
    }
    match rng.below(6) {
        0 => String::new(),
        1 => gen_sjis(rng, 6),
        _ => gen_ident(rng, 10),
    }
}

fn typed_value(rng: &mut Rng, i: usize) -> u32 {
    match i {
        3 | 4 | 5 => {
            if rng.bool() {
                *rng.pick(&F32_BITS)
            } else {
                rng.u32()
            }
        }
        0 | 1 | 2 | 10 => 0x0403_0201u32.wrapping_mul(rng.range(1, 60) as u32) ^ rng.u32() & 0x00FF_00FF,
        _ => *rng.pick(&[0u32, 1, 0x7FFF_FFFF, 0x8000_0000, 0xFFFF_FFFF, 0x0102_0304]) ^ if rng.bool() { rng.u32() } else { 0 },
    }
}

/// A spec with NOTHING present, whatever `AssetSpec::new()` chooses to pre-set: the workloads
/// state every presence flag themselves.
pub fn blank_spec() -> AssetSpec {
    let mut s = AssetSpec::new();
    s.name = None;
    for i in 0..NSTR {
        *str_field(&mut s, i) = None;
    }
    for i in 0..NTYPED {
        typed_set(&mut s, i, false, 0);
    }
    s
}

pub fn gen_spec(rng: &mut Rng) -> AssetSpec {
    let mut s = blank_spec();
    s.name = if rng.chance(1, 8) { None } else { Some(text(rng)) };
    let mode = rng.below(5);
    let density = match mode {
        0 => 0,
        1 => 100,
        2 => 10,
        3 => 50,
        _ => 90,
    };
    for i in 0..NSTR {
        if rng.below(100) < density {
            *str_field(&mut s, i) = Some(text(rng));
        }
    }
    let tdensity = if rng.chance(1, 3) { 0 } else { density };
    for i in 0..NTYPED {
        if rng.below(100) < tdensity {
            let v = typed_value(rng, i);
            typed_set(&mut s, i, true, v);
        } else if rng.chance(1, 6) {
            // a switched-off field that still carries a stale value: presence is the switch, not the value
            let v = typed_value(rng, i) | 1;
            typed_set(&mut s, i, false, v);
        }
    }
    s
}

pub const REQUIRED: &[&str] = &["each_field_alone", "all_absent", "all_present", "adjacent_pairs", "no_specs", "poisoned_by_failing_calls_first", "spec_count_around_256_1024_4096_65536"];

pub fn run(cx: &mut Ctx) {
    cx.require(REQUIRED);
    cx.rule = "header flags random u32; 0..=20 specs; field presence: all absent, all present, each of the 33 optional strings and 18 typed fields alone (directed, 51 cases, each followed by a second spec so a wrong width shifts something visible), every pair of adjacent fields, random masks; values: asymmetric colour/bitflag bytes, f32 incl. NaN payloads, +-0, inf, subnormal, u32 boundary values, strings incl. empty and 2-byte characters. Each binary is serialized, its records walked on the strictly parsed image (long form iff an extended field is present; flag bytes + 4 + 4*popcount per record; 4 terminator bytes), re-read by the library and compared field by field (f32 by bits), and re-serialized. non-trivial = a spec with >=1 extended field followed by another spec; binaries with 255..65537 specs; one string the Shift-JIS encoder cannot express in 1 of 60 cases (must be refused or kept intact); distinct by value hash".into();
    let miri = cfg!(miri);
    let mut follower = blank_spec();
    follower.name = Some("follower".into());
    follower.body_model = Some("bm".into());
    typed_set(&mut follower, 6, true, 0xDEAD_BEEF);
    cx.case("no_specs", |c| {
        c.sit("no_specs");
        check(c, 0, &[], "no_specs");
        check(c, 0xFFFF_FFFF, &[], "no_specs_flags");
    });
    cx.case("all_absent_all_present", |c| {
        c.sit("all_absent");
        c.sit("all_present");
        let mut none = blank_spec();
        check(c, 1, &[none.clone(), follower.clone()], "all_absent_nameless");
        none.name = Some("n".into());
        check(c, 1, &[none.clone(), follower.clone()], "all_absent");
        let mut all = blank_spec();
        all.name = Some("all".into());
        for i in 0..NSTR {
            *str_field(&mut all, i) = Some(format!("s{}", i));
        }
        for i in 0..NTYPED {
            typed_set(&mut all, i, true, 0x1122_3344u32.wrapping_add(i as u32 * 0x0101_0101));
        }
        check(c, 2, &[all.clone(), follower.clone(), all.clone()], "all_present");
    });
    for i in 0..(NSTR + NTYPED) {
        cx.case("each_field_alone", |c| {
            c.sit("each_field_alone");
            let mut s = blank_spec();
            s.name = Some("one".into());
            if i < NSTR {
                *str_field(&mut s, i) = Some(format!("v{}", i));
            } else {
                for bits in [0x0102_0304u32, 0x7FC0_1234, 0x8000_0000] {
                    let mut t = s.clone();
                    typed_set(&mut t, i - NSTR, true, bits);
                    check(c, 7, &[t, follower.clone()], "typed_field_alone");
                }
            }
            check(c, 7, &[s.clone(), follower.clone()], "field_alone");
            // adjacent pair (i, i+1)
            if i + 1 < NSTR + NTYPED {
                c.sit("adjacent_pairs");
                let j = i + 1;
                if j < NSTR {
                    *str_field(&mut s, j) = Some(format!("w{}", j));
                } else {
                    typed_set(&mut s, j - NSTR, true, 0xA1B2_C3D4);
                }
                check(c, 7, &[s, follower.clone()], "adjacent_pair");
            }
        });
    }
    if !miri {
        // thresholds: spec counts at and around 256 / 1024 / 4096 / 65536
        for (i, count) in [255usize, 256, 257, 1023, 1024, 1025, 4095, 4096, 4097, 5000, 65535, 65536, 65537].into_iter().enumerate() {
            if count > 60000 && cx.a.quick() && i % 2 == 1 {
                continue;
            }
            cx.case("spec_count_thresholds", |c| {
                c.sit("spec_count_around_256_1024_4096_65536");
                let mut rng = c.rng.clone();
                let protos: Vec<AssetSpec> = (0..6).map(|_| gen_spec(&mut rng)).collect();
                let specs: Vec<AssetSpec> = (0..count)
                    .map(|k| {
                        let mut s = protos[k % protos.len()].clone();
                        s.name = Some(format!("n{}", k));
                        s
                    })
                    .collect();
                c.eval(count as u64);
                check(c, 3, &specs, "spec_count_thresholds");
            });
        }
    }
    if !miri {
        // one string of a little more than 1 MiB (the name, a short-form string, an extended string)
        cx.case("string_longer_than_1MiB", |c| {
            c.sit("string_longer_than_1MiB");
            let long: String = (0..(1usize << 20) + 16).map(|i| (b'a' + (i % 23) as u8) as char).collect();
            for place in 0..3 {
                let mut a = blank_spec();
                let mut b = blank_spec();
                a.name = Some("first".into());
                b.name = Some("second".into());
                match place {
                    0 => a.name = Some(long.clone()),
                    1 => *str_field(&mut a, 2) = Some(long.clone()),
                    _ => *str_field(&mut b, NSTR - 1) = Some(long.clone()),
                }
                check(c, 1, &[a, b], "string_longer_than_1MiB");
            }
        });
    }
    let n = cx.a.n(100_000, 1_000_000);
    for _ in 0..n {
        cx.case("random", |c| {
            super::poison::maybe(c, 9);
            let mut rng = c.rng.clone();
            let nspecs = if miri { rng.range(0, 2) } else { rng.range(0, 20) };
            let mut specs: Vec<AssetSpec> = (0..nspecs).map(|_| gen_spec(&mut rng)).collect();
            if !specs.is_empty() && rng.chance(1, 60) {
                // one string the Shift-JIS encoder cannot express: serialize must refuse it or keep it intact
                let i = rng.below(specs.len());
                let u = rng.pick(&crate::refs::strings::UNENCODABLE).to_string();
                if rng.bool() {
                    specs[i].name = Some(u);
                } else {
                    let k = rng.below(NSTR);
                    *str_field(&mut specs[i], k) = Some(u);
                }
            }
            if !specs.is_empty() && rng.chance(1, 25) {
                // two distinct strings that collide under a common hash function, somewhere in the file;
                // or a few strings of one numbered family
                if rng.bool() {
                    let (a, b) = *rng.pick(&crate::refs::strings::COLLIDING_PAIRS);
                    for x in [a, b] {
                        let i = rng.below(specs.len());
                        if rng.chance(1, 3) {
                            specs[i].name = Some(x.to_string());
                        } else {
                            let k = rng.below(NSTR);
                            *str_field(&mut specs[i], k) = Some(x.to_string());
                        }
                    }
                } else {
                    let base = rng.range(300, 360);
                    for (j, sp) in specs.iter_mut().enumerate() {
                        sp.name = Some(format!("MID_{:05}", base + j));
                        for k in 0..NSTR {
                            if rng.chance(1, 2) {
                                *str_field(sp, k) = Some(format!("MID_{:05}", base + 20 * k + j));
                            }
                        }
                    }
                }
            }
            let flags = rng.u32();
            check(c, flags, &specs, "random");
        });
    }
}
