//! C19 — pixel decoding matches the hardware formats (and is identical in both arithmetic modes).
use crate::ctx::{Case, Ctx};
use crate::json::{hex_short, J};
use crate::prng::{fnv, Rng};
use crate::refs::pixels::{self, Fmt, FMTS};
use crate::refs::texcont::{self, Tex};
use mila::{ctpk, tpl::Tpl, ColorFormat};

fn digest(c: &mut Case, tag: &str, out: &[u8]) {
    if cfg!(miri) {
        return; // the Miri lane runs a reduced, differently indexed workload: not comparable by case index
    }
    let idx = c.idx;
    c.digest(format!("case{}:{}", idx, tag), fnv(out));
}

/// decode one 3DS texture through a single-texture CTPK container
pub fn decode_3ds(c: &mut Case, f: Fmt, w: usize, h: usize, payload: &[u8], tag: &str) -> Option<Vec<u8>> {
    let t = Tex { name: "t".into(), width: w, height: h, format: f.code(), payload: payload.to_vec(), palette: vec![] };
    let img = texcont::ctpk(&[t], &mut Rng::new(1), false).bytes;
    let what = format!("ctpk::read ({} {}x{} {})", f.name(), w, h, tag);
    let img_t = crate::monitor::tight(&img);
    match c.lib_stable_by(&what, || ctpk::read(&img_t).map_err(|e| e.to_string()), super::c20::same_textures) {
        None => {
            digest(c, tag, b"panic");
            None
        }
        Some(Err(e)) => {
            c.fail("decode_err", &format!("decode_err:{}", f.name()), format!("{}: returned Err({}) for a payload of exactly the required size", what, e));
            digest(c, tag, b"err");
            None
        }
        Some(Ok(mut v)) => {
            if v.len() != 1 || v[0].width != w || v[0].height != h {
                c.fail("decode_err", "container", format!("{}: {} textures returned / wrong dimensions", what, v.len()));
                return None;
            }
            let px = std::mem::take(&mut v[0].pixel_data);
            digest(c, tag, &px);
            if px.len() != 4 * w * h {
                c.fail("wrong_length", &format!("wrong_length:{}", f.name()), format!("{}: {} bytes of pixel data, expected 4*w*h = {}", what, px.len(), 4 * w * h));
                return None;
            }
            Some(px)
        }
    }
}

/// check a non-ETC format against the per-sample expectation at every pixel
fn check_plain(c: &mut Case, f: Fmt, w: usize, h: usize, payload: &[u8], tag: &str) {
    let px = match decode_3ds(c, f, w, h, payload, tag) {
        Some(p) => p,
        None => return,
    };
    let bps = f.bytes_per_sample();
    for y in 0..h {
        for x in 0..w {
            let si = pixels::morton_sample_index(x, y, w);
            let mut v = 0u32;
            for k in 0..bps {
                v |= (payload[si * bps + k] as u32) << (8 * k);
            }
            let exp = pixels::expect_sample(f, v);
            let o = (y * w + x) * 4;
            for ch in 0..4 {
                if !pixels::within(exp[ch], px[o + ch]) {
                    c.fail(
                        "wrong_pixel",
                        &format!("wrong_pixel:{}", f.name()),
                        format!(
                            "{} {}x{} [{}]: pixel ({},{}) channel {} = {}, expected {} +- {:.1} from sample #{} (value {:#x}) at its Z-order position",
                            f.name(), w, h, tag, x, y, "RGBA".as_bytes()[ch] as char, px[o + ch], exp[ch].exp, exp[ch].tol, si, v
                        ),
                    );
                    return;
                }
            }
        }
    }
}

fn check_etc(c: &mut Case, alpha: bool, w: usize, h: usize, payload: &[u8], tag: &str) {
    let f = if alpha { Fmt::Etc1A4 } else { Fmt::Etc1 };
    let exp = match pixels::etc1_image(payload, w, h, alpha) {
        Some(e) => e,
        None => return, // outside the range the ETC1 rules define: not generated on purpose
    };
    // through the container
    if let Some(px) = decode_3ds(c, f, w, h, payload, tag) {
        if let Some(i) = px.iter().zip(exp.iter()).position(|(a, b)| a != b) {
            let p = i / 4;
            c.fail(
                "wrong_pixel",
                &format!("wrong_pixel:{}", f.name()),
                format!("{} {}x{} [{}]: pixel ({},{}) channel {} = {}, ETC1 rules give {}; payload={}", f.name(), w, h, tag, p % w, p / w, "RGBA".as_bytes()[i % 4] as char, px[i], exp[i], hex_short(payload, 64)),
            );
        }
    }
    // and through the public mila::decode
    let what = format!("mila::decode ({} {}x{} {})", f.name(), w, h, tag);
    let payload_t = crate::monitor::tight(payload);
    match c.lib_stable(&what, || mila::decode(&payload_t, w, h, alpha).map_err(|e| e.to_string())) {
        None => digest(c, &format!("{}:direct", tag), b"panic"),
        Some(Err(e)) => c.fail("decode_err", "decode_err:etc1_direct", format!("{}: Err({})", what, e)),
        Some(Ok(px)) => {
            digest(c, &format!("{}:direct", tag), &px);
            if px != exp {
                let i = px.iter().zip(exp.iter()).position(|(a, b)| a != b).unwrap_or(0);
                c.fail("wrong_pixel", "wrong_pixel:etc1_direct", format!("{}: differs from the ETC1 rules at byte {}", what, i));
            }
        }
    }
}

const SIZES: [usize; 5] = [8, 16, 32, 64, 128];

fn unique_payload(f: Fmt, w: usize, h: usize, base: u32) -> Vec<u8> {
    let n = w * h;
    let bps = f.bytes_per_sample();
    let mut p = Vec::with_capacity(n * bps);
    for i in 0..n as u32 {
        let v: u32 = match bps {
            4 => (i.wrapping_add(base)).wrapping_mul(0x9E37_79B1),
            2 => i.wrapping_add(base) & 0xFFFF,
            _ => {
                // 8-bit: neighbours differ, long period
                ((i.wrapping_add(base)).wrapping_mul(167) >> 2) & 0xFF
            }
        };
        for k in 0..bps {
            p.push((v >> (8 * k)) as u8);
        }
    }
    p
}

pub const REQUIRED: &[&str] = &["all_shapes_all_formats", "all_65536_values_16bit", "etc1_all_tables_flips_modes", "etc1_all_base_delta_pairs", "etc1_negative_delta", "etc1_selectors", "etc1a4_alpha_nibbles", "rgb5a3_all_values", "ci8_sizes"];

pub fn run(cx: &mut Ctx) {
    cx.require(REQUIRED);
    cx.rule = "formats RGBA8, RGBA5551, RGB565, RGBA4, LA8, L8, A8, ETC1, ETC1A4 x all 25 shapes with sides in {8,16,32,64,128} with position-revealing payloads (sample value = its index); 16-bit formats: all 65536 values (4 images of 128x128 each); ETC1: all 8x8 table pairs x flip x {individual, differential}, every 2-bit selector at each of the 16 positions for every table, every (base, delta) with 0 <= base+delta <= 31 per channel, all 256 individual nibble pairs, all 16 alpha nibbles at each position, plus random blocks; RGB5A3: all 65536 values; CI8: sizes 1..=64 x 1..=64 (sampled in quick, all in thorough) with random palettes. Oracles: Morton order by bit interleaving, linear channel expansion with one-step tolerance, ETC1 from the Khronos specification, RGB5A3, 8x4 block order. Every case's output digest is also compared between the checked and the wrapping build by the supervisor. non-trivial = distinct (format, shape, payload class)".into();
    let miri = cfg!(miri);
    let sizes: Vec<usize> = if miri { vec![8, 16] } else { SIZES.to_vec() };
    // ---- position + value: every shape, every format
    for &f in &FMTS {
        for &w in &sizes {
            for &h in &sizes {
                if miri && ((w, h) == (16, 16) || (w, h) == (8, 16) || !matches!(f, Fmt::Rgba8 | Fmt::Rgb565 | Fmt::L8 | Fmt::Etc1A4)) {
                    continue;
                }
                cx.case("all_shapes_all_formats", |c| {
                    c.sit("all_shapes_all_formats");
                    c.nontrivial(fnv(format!("{}|{}x{}|index", f.name(), w, h).as_bytes()));
                    match f {
                        Fmt::Etc1 | Fmt::Etc1A4 => {
                            // distinct random (defined) blocks so that a misplaced block shows
                            let mut rng = Rng::new((w * 131 + h) as u64);
                            let alpha = f == Fmt::Etc1A4;
                            let nblocks = w * h / 16;
                            let mut p = Vec::new();
                            for _ in 0..nblocks {
                                if alpha {
                                    p.extend(rng.bytes(8));
                                }
                                p.extend(random_defined_block(&mut rng));
                            }
                            check_etc(c, alpha, w, h, &p, "random blocks");
                        }
                        _ => {
                            let p = unique_payload(f, w, h, 0);
                            check_plain(c, f, w, h, &p, "sample=index");
                            c.sample(f.name(), || J::obj(vec![("format", J::s(f.name())), ("shape", J::s(format!("{}x{}", w, h))), ("payload", J::s("sample value = sample index")), ("payload_hex", J::s(hex_short(&p, 32))), ("observed", J::s("every pixel within one quantisation step of the sample at its Z-order position"))]));
                        }
                    }
                });
            }
        }
    }
    // ---- 16-bit formats: all 65536 values
    if !miri {
        for &f in &[Fmt::Rgba5551, Fmt::Rgb565, Fmt::Rgba4, Fmt::La8] {
            for part in 0..4u32 {
                cx.case("all_65536_values_16bit", |c| {
                    c.sit("all_65536_values_16bit");
                    c.nontrivial(fnv(format!("{}|all-values|{}", f.name(), part).as_bytes()));
                    let p = unique_payload(f, 128, 128, part * 16384);
                    check_plain(c, f, 128, 128, &p, &format!("values {:#x}..", part * 16384));
                });
            }
        }
        for &f in &[Fmt::L8, Fmt::A8] {
            cx.case("all_256_values_8bit", |c| {
                let p: Vec<u8> = (0..256).map(|i| i as u8).collect();
                check_plain(c, f, 16, 16, &p, "all 256 values");
            });
        }
        cx.case("rgba8_extreme_texels", |c| {
            c.sit("rgba8_all_ff_and_all_00_texels");
            let (w, h) = (8usize, 8usize);
            for fill in [0xFFu8, 0x00] {
                check_plain(c, Fmt::Rgba8, w, h, &vec![fill; 4 * w * h], &format!("uniform texels {:02x}", fill));
            }
            // every texel 0xFFFFFFFF except one, at each position of the tile
            for k in (0..64).step_by(7) {
                let mut p = vec![0xFFu8; 4 * w * h];
                p[4 * k..4 * k + 4].copy_from_slice(&[1, 2, 3, 4]);
                check_plain(c, Fmt::Rgba8, w, h, &p, &format!("white with one odd texel at {}", k));
            }
        });
        // tiles whose samples repeat with a short period (flat, 1-texel stripes, 2x2 checks ...): any
        // "this tile is uniform / compressible" shortcut in the decoder has to tell them apart
        for &f in &FMTS {
            if matches!(f, Fmt::Etc1 | Fmt::Etc1A4) {
                continue;
            }
            cx.case("periodic_tiles", |c| {
                c.sit("periodic_and_nearly_flat_tiles");
                let bps = f.bytes_per_sample();
                let mut rng = Rng::new(4242 + bps as u64);
                for period in [1usize, 2, 3, 4, 5, 8, 16, 32, 63] {
                    for &(w, h) in &[(8usize, 8usize), (16, 8)] {
                        let vals: Vec<Vec<u8>> = (0..period).map(|k| (0..bps).map(|b| 0x11u8.wrapping_mul(k as u8 + 1).wrapping_add(37u8.wrapping_mul(b as u8)) ^ rng.below(256) as u8).collect()).collect();
                        let mut p = Vec::with_capacity(w * h * bps);
                        for i in 0..w * h {
                            p.extend_from_slice(&vals[i % period]);
                        }
                        check_plain(c, f, w, h, &p, &format!("{}x{} samples repeat with period {}", w, h, period));
                        // the same, with the second tile of a 16x8 image different from the first
                        if w == 16 {
                            let half = p.len() / 2;
                            for b in p[half..].iter_mut() {
                                *b = !*b;
                            }
                            check_plain(c, f, w, h, &p, &format!("period {} and its complement", period));
                        }
                    }
                }
                // flat except one sample, at every position
                for k in 0..64 {
                    let mut p = vec![0x5Au8; 64 * bps];
                    for b in 0..bps {
                        p[k * bps + b] = 0xA5u8.wrapping_add(b as u8);
                    }
                    check_plain(c, f, 8, 8, &p, &format!("flat with one odd sample at {}", k));
                }
                c.nontrivial(fnv(format!("{}|periodic", f.name()).as_bytes()));
            });
        }
        cx.case("rgba8_random", |c| {
            let mut rng = Rng::new(88);
            let p = rng.bytes(4 * 64 * 32);
            check_plain(c, Fmt::Rgba8, 64, 32, &p, "random");
        });
    }
    // ---- ETC1 structure
    cx.case("etc1_all_tables_flips_modes", |c| {
        c.sit("etc1_all_tables_flips_modes");
        let mut blocks: Vec<[u8; 8]> = Vec::new();
        for cw1 in 0..8u8 {
            for cw2 in 0..8u8 {
                for flip in [false, true] {
                    for diff in [false, true] {
                        // moderate base colour; differential deltas 0 so always defined
                        let rgb = if diff { [12 << 3, 20 << 3, 7 << 3] } else { [0x5A, 0xC3, 0x0F] };
                        blocks.push(pixels::etc1_make_block(diff, flip, cw1, cw2, rgb, 0xA5C3, 0x3C5A));
                    }
                }
            }
        }
        run_blocks(c, &blocks, "tables x flip x mode");
        // the same grid with uniform selector words (all pixels pick the same modifier)
        let mut blocks: Vec<[u8; 8]> = Vec::new();
        for cw1 in 0..8u8 {
            for cw2 in 0..8u8 {
                for (msb, lsb) in [(0u16, 0u16), (0, 0xFFFF), (0xFFFF, 0), (0xFFFF, 0xFFFF)] {
                    for flip in [false, true] {
                        let diff = (cw1 + cw2) % 2 == 0;
                        let rgb = if diff { [9 << 3, 21 << 3, 14 << 3] } else { [0x3C, 0xA5, 0x69] };
                        blocks.push(pixels::etc1_make_block(diff, flip, cw1, cw2, rgb, msb, lsb));
                    }
                }
            }
        }
        run_blocks(c, &blocks, "tables x uniform selector words");
    });
    cx.case("etc1_selectors", |c| {
        c.sit("etc1_selectors");
        let mut blocks: Vec<[u8; 8]> = Vec::new();
        for cw in 0..8u8 {
            for pos in 0..16 {
                for sel in 0..4u16 {
                    let msb = (sel >> 1) << pos;
                    let lsb = (sel & 1) << pos;
                    for flip in [false, true] {
                        blocks.push(pixels::etc1_make_block(false, flip, cw, 7 - cw, [0x48, 0x84, 0xC7], msb, lsb));
                    }
                }
            }
        }
        run_blocks(c, &blocks, "selector at each position");
        let mut rng = Rng::new(5);
        let mut blocks: Vec<[u8; 8]> = Vec::new();
        for _ in 0..if cfg!(miri) { 16 } else { 2048 } {
            blocks.push(random_defined_block(&mut rng));
        }
        run_blocks(c, &blocks, "random selector words");
    });
    cx.case("etc1_all_base_delta_pairs", |c| {
        c.sit("etc1_all_base_delta_pairs");
        let mut blocks: Vec<[u8; 8]> = Vec::new();
        let mut neg = false;
        for base in 0..32i32 {
            for delta in -4..4i32 {
                if base + delta < 0 || base + delta > 31 {
                    continue;
                }
                if delta < 0 {
                    neg = true;
                }
                let byte = ((base as u8) << 3) | (delta as u8 & 7);
                for ch in 0..3 {
                    let mut rgb = [10u8 << 3, 10 << 3, 10 << 3];
                    rgb[ch] = byte;
                    blocks.push(pixels::etc1_make_block(true, ch % 2 == 0, 2, 5, rgb, 0x0F0F, 0x3333));
                }
                blocks.push(pixels::etc1_make_block(true, false, 0, 0, [byte, byte, byte], 0, 0));
            }
        }
        if neg {
            c.sit("etc1_negative_delta");
        }
        run_blocks(c, &blocks, "every base/delta pair with 0 <= base+delta <= 31");
        // individual mode: all 256 nibble pairs
        let mut blocks: Vec<[u8; 8]> = Vec::new();
        for v in 0..=255u8 {
            blocks.push(pixels::etc1_make_block(false, v % 2 == 0, 1, 6, [v, v.wrapping_mul(7), v.wrapping_mul(13)], 0x00FF, 0xF0F0));
        }
        run_blocks(c, &blocks, "all individual-mode nibble pairs");
    });
    cx.case("etc1a4_alpha_nibbles", |c| {
        c.sit("etc1a4_alpha_nibbles");
        // 16 positions x 16 values = 256 blocks = a 64x64 image
        let mut p = Vec::new();
        for pos in 0..16u64 {
            for v in 0..16u64 {
                let a: u64 = (v << (4 * pos)) | (0x1111_1111_1111_1111u64.wrapping_mul(15 - v) & !(0xFu64 << (4 * pos)));
                p.extend_from_slice(&a.to_le_bytes());
                p.extend_from_slice(&pixels::etc1_make_block(false, false, 3, 4, [0x77, 0x88, 0x99], 0x1234, 0x5678));
            }
        }
        if !cfg!(miri) {
            check_etc(c, true, 64, 64, &p, "alpha nibble x position");
        }
        // uniform alpha planes (all sixteen nibbles equal), incl. fully transparent and fully opaque
        let mut p = Vec::new();
        for v in 0..16u64 {
            let a: u64 = 0x1111_1111_1111_1111u64.wrapping_mul(v);
            p.extend_from_slice(&a.to_le_bytes());
            p.extend_from_slice(&pixels::etc1_make_block(v % 2 == 0, v % 3 == 0, (v % 8) as u8, 5, [0x60 | (v as u8 & 7), 0x98, 0x38], 0x0F0F, 0x00FF));
        }
        check_etc(c, true, 32, 8, &p, "uniform alpha planes");
    });
    // ---- RGB5A3: all 65536 values through ColorFormat::decode
    cx.case("rgb5a3_all_values", |c| {
        c.sit("rgb5a3_all_values");
        let step = if cfg!(miri) { 4099 } else { 1 };
        let vals: Vec<u16> = (0..=0xFFFFu32).step_by(step).map(|v| v as u16).collect();
        let mut p = Vec::new();
        for v in &vals {
            p.extend_from_slice(&v.to_be_bytes());
        }
        match c.lib_stable("ColorFormat::RGB5A3.decode", || ColorFormat::RGB5A3.decode(&crate::monitor::tight(&p)).map_err(|e| e.to_string())) {
            None => digest(c, "rgb5a3", b"panic"),
            Some(Err(e)) => c.fail("decode_err", "decode_err:rgb5a3", format!("ColorFormat::RGB5A3.decode returned Err({})", e)),
            Some(Ok(px)) => {
                digest(c, "rgb5a3", &px);
                if px.len() != 4 * vals.len() {
                    c.fail("wrong_length", "wrong_length:rgb5a3", format!("{} bytes for {} values", px.len(), vals.len()));
                    return;
                }
                for (i, v) in vals.iter().enumerate() {
                    let e = pixels::expect_rgb5a3(*v);
                    for ch in 0..4 {
                        if !pixels::within(e[ch], px[4 * i + ch]) {
                            c.fail("wrong_pixel", "wrong_pixel:rgb5a3", format!("RGB5A3 value {:#06x}: channel {} = {}, expected {} +- {:.1}", v, "RGBA".as_bytes()[ch] as char, px[4 * i + ch], e[ch].exp, e[ch].tol));
                            return;
                        }
                    }
                }
                c.nontrivial(fnv(b"rgb5a3-all"));
                c.nontrivial(fnv(b"rgb5a3-all-2"));
            }
        }
    });
    // ---- RGB5A3: every small count of values (odd counts, counts that are 1..3 mod 4)
    cx.case("rgb5a3_counts", |c| {
        c.sit("rgb5a3_odd_and_small_counts");
        let mut rng = Rng::new(77);
        for n in (0..=17usize).chain([255, 256, 257, 1023, 1025]) {
            let vals: Vec<u16> = (0..n).map(|_| rng.u32() as u16).collect();
            let mut p = Vec::new();
            for v in &vals {
                p.extend_from_slice(&v.to_be_bytes());
            }
            match c.lib_stable("ColorFormat::RGB5A3.decode", || ColorFormat::RGB5A3.decode(&crate::monitor::tight(&p)).map_err(|e| e.to_string())) {
                None => {}
                Some(Err(e)) => c.fail("decode_err", "decode_err:rgb5a3", format!("ColorFormat::RGB5A3.decode of {} values returned Err({})", n, e)),
                Some(Ok(px)) => {
                    if px.len() != 4 * n {
                        c.fail("wrong_length", "wrong_length:rgb5a3", format!("{} bytes for {} values", px.len(), n));
                        continue;
                    }
                    for (i, v) in vals.iter().enumerate() {
                        let e = pixels::expect_rgb5a3(*v);
                        if (0..4).any(|ch| !pixels::within(e[ch], px[4 * i + ch])) {
                            c.fail("wrong_pixel", "wrong_pixel:rgb5a3", format!("RGB5A3 value {:#06x} (#{} of {}): got {:?}", v, i, n, &px[4 * i..4 * i + 4]));
                            break;
                        }
                    }
                }
            }
        }
    });
    // ---- CI8 through Tpl::extract_textures
    let quick = cx.a.quick();
    let mut dims: Vec<(usize, usize)> = Vec::new();
    for w in 1..=64usize {
        for h in 1..=64usize {
            let keep = if miri { (w, h) == (1, 1) || (w, h) == (9, 5) || (w, h) == (8, 4) } else if quick { w <= 9 && h <= 5 || (w * 7 + h * 13) % 23 == 0 || w == 64 || h == 64 } else { true };
            if keep {
                dims.push((w, h));
            }
        }
    }
    for chunk in dims.chunks(16) {
        cx.case("ci8_sizes", |c| {
            c.sit("ci8_sizes");
            let mut rng = c.rng.clone();
            for &(w, h) in chunk {
                check_ci8(c, w, h, &mut rng);
            }
            c.eval(chunk.len() as u64);
        });
    }
    // ---- random payloads on random shapes
    let n = cx.a.n(20_000, 200_000);
    for _ in 0..n {
        cx.case("random_payloads", |c| {
            let mut rng = c.rng.clone();
            let f = *rng.pick(&FMTS);
            let w = *rng.pick(if miri { &SIZES[..1] } else { &SIZES[..4] });
            let h = *rng.pick(if miri { &SIZES[..1] } else { &SIZES[..4] });
            match f {
                Fmt::Etc1 | Fmt::Etc1A4 => {
                    let alpha = f == Fmt::Etc1A4;
                    let mut p = Vec::new();
                    for _ in 0..w * h / 16 {
                        if alpha {
                            p.extend(rng.bytes(8));
                        }
                        p.extend(random_defined_block(&mut rng));
                    }
                    check_etc(c, alpha, w, h, &p, "random");
                }
                _ => {
                    let p = rng.bytes(f.payload_len(w, h));
                    check_plain(c, f, w, h, &p, "random");
                }
            }
            c.nontrivial(fnv(format!("{}|{}x{}|random", f.name(), w, h).as_bytes()));
        });
    }
}

/// a random ETC1 block inside the range the rules define (differential sums within 0..=31)
pub fn random_defined_block(rng: &mut Rng) -> [u8; 8] {
    let diff = rng.bool();
    let mut rgb = [0u8; 3];
    for ch in 0..3 {
        if diff {
            let base = rng.range(0, 31) as i32;
            let lo = (-4i32).max(-base);
            let hi = 3i32.min(31 - base);
            let d = lo + rng.below((hi - lo + 1) as usize) as i32;
            rgb[ch] = ((base as u8) << 3) | (d as u8 & 7);
        } else {
            rgb[ch] = rng.u8();
        }
    }
    pixels::etc1_make_block(diff, rng.bool(), rng.below(8) as u8, rng.below(8) as u8, rgb, rng.u32() as u16, rng.u32() as u16)
}

/// decode a list of blocks as one image (padded with copies of the first block to a 8k x 8 strip)
fn run_blocks(c: &mut Case, blocks: &[[u8; 8]], tag: &str) {
    if blocks.is_empty() {
        return;
    }
    // Miri: a UB smoke lane - every 29th block only
    let sub: Vec<[u8; 8]>;
    let blocks: &[[u8; 8]] = if cfg!(miri) {
        sub = blocks.iter().step_by(29).copied().collect();
        &sub
    } else {
        blocks
    };
    // width 8, height 8*ceil(n/4): tiles of 4 blocks
    let tiles = (blocks.len() + 3) / 4;
    let mut p = Vec::new();
    for i in 0..tiles * 4 {
        p.extend_from_slice(&blocks[i.min(blocks.len() - 1)]);
    }
    // keep heights a power of two as the property states: split into chunks of 16 tiles (8x128)
    let per = 16 * 4 * 8;
    let mut k = 0;
    for chunk in p.chunks(per) {
        let mut ch = chunk.to_vec();
        let mut t = ch.len() / 32;
        while !t.is_power_of_two() {
            ch.extend_from_slice(&chunk[..32]);
            t += 1;
        }
        check_etc(c, false, 8, 8 * t, &ch, &format!("{} #{}", tag, k));
        k += 1;
    }
    c.eval(blocks.len() as u64);
    c.nontrivial(fnv(tag.as_bytes()));
}

fn check_ci8(c: &mut Case, w: usize, h: usize, rng: &mut Rng) {
    let aw = (w + 7) / 8 * 8;
    let ah = (h + 3) / 4 * 4;
    // palette sizes: the extremes (1, 2, 255, 256 entries) every third time
    // (and palettes with more entries than an 8-bit index can reach: the first 256 are the ones in use)
    let npal = if rng.chance(1, 3) { *rng.pick(&[1usize, 2, 16, 255, 256, 256, 257, 300, 512]) } else { rng.range(1, 256) };
    let nidx = npal.min(256);
    let palette: Vec<u16> = (0..npal).map(|_| rng.u32() as u16).collect();
    if npal >= 256 && w * h >= 256 {
        c.sit("ci8_index_255_of_a_256_entry_palette");
    }
    // padding cells (outside w x h) hold an index that is NOT in the palette: they must never be looked up
    let mut payload = vec![if npal < 256 { 0xFF } else { 0 }; aw * ah];
    // index = position mod palette size inside the image
    for y in 0..h {
        for x in 0..w {
            payload[pixels::ci8_offset(x, y, aw)] = ((y * w + x + 3 * y) % nidx) as u8;
        }
    }
    if npal < 256 {
        // the same image with ONE visible pixel whose index is outside the palette: there is no
        // colour for it, so the reader has to fail (and must not invent a pixel)
        c.sit("ci8_visible_index_outside_the_palette");
        let mut bad = payload.clone();
        let (bx, by) = (rng.below(w), rng.below(h));
        bad[pixels::ci8_offset(bx, by, aw)] = if rng.bool() { npal as u8 } else { 0xFF };
        let t = Tex { name: String::new(), width: w, height: h, format: 0, payload: bad, palette: palette.clone() };
        let img = texcont::tpl(&[t], rng, false).bytes;
        let img_t = crate::monitor::tight(&img);
        if let Some(Ok(v)) = c.lib("Tpl::extract_textures (index outside the palette)", || Tpl::extract_textures(&img_t).map_err(|e| e.to_string())) {
            c.fail(
                "malformed_accepted",
                "ci8_index_outside_palette_accepted",
                format!("CI8 {}x{} with {} colours: pixel ({},{}) has an index outside the palette, but the reader returned Ok ({} textures, pixel = {:?})", w, h, npal, bx, by, v.len(), v.get(0).and_then(|t| t.pixel_data.get((by * w + bx) * 4..(by * w + bx) * 4 + 4).map(|s| s.to_vec()))),
            );
        }
    }
    let t = Tex { name: String::new(), width: w, height: h, format: 0, payload, palette: palette.clone() };
    let img = texcont::tpl(&[t], rng, false).bytes;
    let what = format!("Tpl::extract_textures (CI8 {}x{}, {} colours)", w, h, npal);
    let img_t = crate::monitor::tight(&img);
    match c.lib_stable_by(&what, || Tpl::extract_textures(&img_t).map_err(|e| e.to_string()), super::c20::same_textures) {
        None => digest(c, &format!("ci8:{}x{}", w, h), b"panic"),
        Some(Err(e)) => c.fail("decode_err", "decode_err:ci8", format!("{}: Err({})", what, e)),
        Some(Ok(v)) => {
            if v.len() != 1 || v[0].width != w || v[0].height != h || v[0].pixel_data.len() != 4 * w * h {
                c.fail("wrong_length", "wrong_length:ci8", format!("{}: {} textures / wrong dimensions / {} bytes", what, v.len(), v.get(0).map(|t| t.pixel_data.len()).unwrap_or(0)));
                return;
            }
            let px = &v[0].pixel_data;
            digest(c, &format!("ci8:{}x{}", w, h), px);
            for y in 0..h {
                for x in 0..w {
                    let idx = (y * w + x + 3 * y) % nidx;
                    let e = pixels::expect_rgb5a3(palette[idx]);
                    for ch in 0..4 {
                        if !pixels::within(e[ch], px[(y * w + x) * 4 + ch]) {
                            c.fail("wrong_pixel", "wrong_pixel:ci8", format!("{}: pixel ({},{}) channel {} = {}, expected palette[{}] = {:#06x} -> {} +- {:.1}", what, x, y, "RGBA".as_bytes()[ch] as char, px[(y * w + x) * 4 + ch], idx, palette[idx], e[ch].exp, e[ch].tol));
                            return;
                        }
                    }
                }
            }
            c.nontrivial(fnv(format!("ci8|{}x{}", w, h).as_bytes()));
        }
    }
}
