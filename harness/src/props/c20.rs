//! C20 — texture containers yield the packed textures and fail cleanly when truncated.
use super::c19::random_defined_block;
use crate::ctx::{Case, Ctx};
use crate::json::{hex_short, J};
use crate::prng::{fnv, fnv_add, Rng};
use crate::refs::pixels::{self, Fmt, FMTS};
use crate::refs::strings::{gen_ident, gen_sjis_nonempty};
use crate::refs::texcont::{self, Built, Tex};
use mila::{bch, cgfx, ctpk, tpl::Tpl, Texture};

#[derive(Clone, Copy, Debug, PartialEq, Eq)]
pub enum Kind {
    Ctpk,
    Bch,
    BchNew,
    Cgfx,
    Tpl,
}
pub const KINDS: [Kind; 5] = [Kind::Ctpk, Kind::Bch, Kind::BchNew, Kind::Cgfx, Kind::Tpl];

pub fn build(k: Kind, texs: &[Tex], rng: &mut Rng, shuffle: bool) -> Built {
    match k {
        Kind::Ctpk => texcont::ctpk(texs, rng, shuffle),
        Kind::Bch => texcont::bch(texs, rng, shuffle, false),
        Kind::BchNew => texcont::bch(texs, rng, shuffle, true),
        Kind::Cgfx => texcont::cgfx(texs, rng, shuffle),
        Kind::Tpl => texcont::tpl(texs, rng, shuffle),
    }
}

/// equality of two reader results (Texture has no PartialEq)
pub fn same_textures(a: &Result<Vec<Texture>, String>, b: &Result<Vec<Texture>, String>) -> bool {
    match (a, b) {
        (Err(x), Err(y)) => x == y,
        (Ok(x), Ok(y)) => x.len() == y.len() && x.iter().zip(y.iter()).all(|(p, q)| p.filename == q.filename && p.width == q.width && p.height == q.height && p.pixel_data == q.pixel_data),
        _ => false,
    }
}

fn read(c: &mut Case, k: Kind, bytes: &[u8], what: &str) -> Option<Result<Vec<Texture>, String>> {
    // exact-size private copy at a (usually) odd address (see monitor::Tight): a reader that runs
    // past a truncated file reads a red zone under the sanitizer lanes, not the rest of the image
    let tight_copy = crate::monitor::tight(bytes);
    let bytes: &[u8] = &tight_copy;
    c.lib_stable_by(
        what,
        || match k {
            Kind::Ctpk => ctpk::read(bytes).map_err(|e| e.to_string()),
            Kind::Bch | Kind::BchNew => bch::read(bytes).map_err(|e| e.to_string()),
            Kind::Cgfx => cgfx::read(bytes).map_err(|e| e.to_string()),
            Kind::Tpl => Tpl::extract_textures(bytes).map_err(|e| e.to_string()),
        },
        same_textures,
    )
}

pub fn gen_tex(rng: &mut Rng, k: Kind, miri: bool) -> Tex {
    if k == Kind::Tpl {
        let (w, h) = if miri { (rng.range(1, 9), rng.range(1, 5)) } else { (rng.range(1, 40), rng.range(1, 40)) };
        let aw = (w + 7) / 8 * 8;
        let ah = (h + 3) / 4 * 4;
        // palette sizes repeat often (two images with equally long but different palettes)
        let npal = if rng.bool() { *rng.pick(&[16usize, 200, 256]) } else { rng.range(1, 256) };
        let palette: Vec<u16> = (0..npal).map(|_| rng.u32() as u16).collect();
        let mut payload: Vec<u8> = vec![if npal < 256 { 0xFF } else { 0 }; aw * ah];
        for y in 0..h {
            for x in 0..w {
                payload[pixels::ci8_offset(x, y, aw)] = rng.below(npal) as u8;
            }
        }
        return Tex { name: String::new(), width: w, height: h, format: 0, payload, palette };
    }
    let f = *rng.pick(&FMTS);
    let sizes: &[usize] = if miri { &[8] } else { &[8, 16, 32] };
    let (w, h) = (*rng.pick(sizes), *rng.pick(sizes));
    let payload = match f {
        Fmt::Etc1 | Fmt::Etc1A4 => {
            let mut p = Vec::new();
            for _ in 0..w * h / 16 {
                if f == Fmt::Etc1A4 {
                    p.extend(rng.bytes(8));
                }
                p.extend(random_defined_block(rng));
            }
            p
        }
        _ => {
            let n = f.payload_len(w, h);
            match rng.below(12) {
                0 => vec![0u8; n],
                1 => vec![0xFFu8; n],
                2 => {
                    // a payload that begins like a container of its own (magic words of the four formats)
                    let mut p = rng.bytes(n);
                    let magic: &[u8] = *rng.pick(&[&b"CTPK\x01\0"[..], &b"BCH\0"[..], &b"CGFX\xFF\xFE"[..], &[0x00, 0x20, 0xAF, 0x30][..], &b"DICT"[..], &b"TXOB"[..]]);
                    let m = magic.len().min(n);
                    p[..m].copy_from_slice(&magic[..m]);
                    p
                }
                _ => rng.bytes(n),
            }
        }
    };
    if rng.chance(1, 12) {
        // the empty name, a name shared with other textures of the same container, and names whose
        // Shift-JIS form contains the byte 0x5C (as a trail byte, or as a real backslash)
        let special = *rng.pick(&["", "", "tex", "tex", "ソ", "表示.tga", "a\\b", "十能"]);
        return Tex { name: special.to_string(), width: w, height: h, format: f.code(), payload, palette: vec![] };
    }
    if rng.chance(1, 25) {
        // names that collide with words the containers use themselves
        let special = *rng.pick(&["CTPK", "BCH", "CGFX", "DICT", "TXOB", "DATA", "tex", " ", "a/b", "x\\y", "name.tga.tga", "."]);
        return Tex { name: special.to_string(), width: w, height: h, format: f.code(), payload, palette: vec![] };
    }
    let name = match k {
        Kind::Ctpk => {
            if rng.chance(1, 3) {
                gen_sjis_nonempty(rng, 8)
            } else {
                format!("{}.tga", gen_ident(rng, 8))
            }
        }
        _ => {
            if rng.chance(1, 12) {
                // a long name (the containers store NUL-terminated names of any length)
                let n = rng.range(60, 90);
                (0..n).map(|i| if i % 7 == 3 { 'é' } else { (b'a' + (i % 26) as u8) as char }).collect()
            } else if rng.chance(1, 3) {
                // UTF-8 names: anything NUL-free that does not start with a BOM character
                let pool = ['é', 'ü', '日', '本', 'テ', 'ク', 'ス', 'チ', 'ャ', '𝄞', 'a', '_'];
                (0..rng.range(1, 6)).map(|_| *rng.pick(&pool)).collect()
            } else {
                gen_ident(rng, 10)
            }
        }
    };
    Tex { name, width: w, height: h, format: f.code(), payload, palette: vec![] }
}

fn describe(k: Kind, texs: &[Tex]) -> String {
    let t: Vec<String> = texs.iter().map(|t| format!("{:?} {}x{} fmt={} {}B", t.name, t.width, t.height, t.format, t.payload.len())).collect();
    format!("{:?} with {} textures [{}]", k, texs.len(), t.join("; "))
}

/// pixel data the library returns for this texture packed alone (so C20 does not depend on C19's oracle)
fn alone(c: &mut Case, k: Kind, t: &Tex) -> Option<Vec<u8>> {
    let mut r = Rng::new(1);
    let single = if k == Kind::Tpl { texcont::tpl(&[t.clone()], &mut r, false) } else { texcont::ctpk(&[Tex { name: "x".into(), ..t.clone() }], &mut r, false) };
    let kk = if k == Kind::Tpl { Kind::Tpl } else { Kind::Ctpk };
    match read(c, kk, &single.bytes, "single-texture reference container") {
        Some(Ok(mut v)) if v.len() == 1 => Some(std::mem::take(&mut v[0].pixel_data)),
        Some(other) => {
            c.fail("alone", "single_texture_failed", format!("reading a texture packed alone failed: {:?}; {}", other.map(|v| v.len()), describe(kk, &[t.clone()])));
            None
        }
        None => None,
    }
}

pub fn check(c: &mut Case, k: Kind, texs: &[Tex], shuffle: bool, all_prefixes: bool) {
    let mut rng = c.rng.clone();
    let b = build(k, texs, &mut rng, shuffle);
    c.rng = rng;
    c.sit(&format!("container_{:?}", k));
    if texs.is_empty() {
        c.sit("zero_textures");
    }
    if shuffle {
        c.sit("shuffled_placement");
    }
    let formats: std::collections::BTreeSet<u32> = texs.iter().map(|t| t.format).collect();
    if texs.len() >= 2 && (formats.len() >= 2 || k == Kind::Tpl) && shuffle {
        let mut h = fnv(format!("{:?}", k).as_bytes());
        h = fnv_add(h, &b.bytes);
        c.nontrivial(h);
    }
    let ctx = || format!("{} shuffle={} file={}B", describe(k, texs), shuffle, b.bytes.len());
    // ---- the whole file
    match read(c, k, &b.bytes, &format!("{:?} read", k)) {
        None => return,
        Some(Err(e)) => {
            c.fail("conforming_rejected", &format!("conforming_rejected:{:?}", k), format!("conforming container rejected with Err({}); {} head={}", e, ctx(), hex_short(&b.bytes, 120)));
            return;
        }
        Some(Ok(got)) => {
            if got.len() != texs.len() {
                c.fail("wrong_textures", &format!("wrong_count:{:?}", k), format!("{} textures returned, expected {}; {}", got.len(), texs.len(), ctx()));
                return;
            }
            for (i, (g, t)) in got.iter().zip(texs.iter()).enumerate() {
                if k != Kind::Tpl && g.filename != t.name {
                    c.fail("wrong_textures", &format!("wrong_name:{:?}", k), format!("texture #{} is named {:?}, expected {:?}; {}", i, g.filename, t.name, ctx()));
                    return;
                }
                if g.width != t.width || g.height != t.height {
                    c.fail("wrong_textures", &format!("wrong_dimensions:{:?}", k), format!("texture #{} is {}x{}, expected {}x{}; {}", i, g.width, g.height, t.width, t.height, ctx()));
                    return;
                }
                if let Some(exp) = alone(c, k, t) {
                    if g.pixel_data != exp {
                        c.fail("wrong_textures", &format!("wrong_pixels:{:?}", k), format!("texture #{} pixel data differs from the decoding of its own payload packed alone (first difference at byte {:?}); {}", i, g.pixel_data.iter().zip(exp.iter()).position(|(a, b)| a != b), ctx()));
                        return;
                    }
                }
            }
            c.sample(&format!("{:?}", k), || J::obj(vec![("container", J::s(describe(k, texs))), ("shuffled", J::Bool(shuffle)), ("file_len", J::U(b.bytes.len() as u64)), ("payload_ranges", J::s(format!("{:?}", b.payload_ranges))), ("head_hex", J::s(hex_short(&b.bytes, 96)))]));
        }
    }
    // ---- wrong magic (BCH, CGFX, TPL)
    if k != Kind::Ctpk {
        for bit in [0usize, 9, 31] {
            let mut m = b.bytes.clone();
            m[bit / 8] ^= 1 << (bit % 8);
            c.sit("wrong_magic");
            if let Some(Ok(v)) = read(c, k, &m, "read with a wrong magic number") {
                c.fail("wrong_magic_accepted", &format!("wrong_magic_accepted:{:?}", k), format!("{:?} input with magic bit {} flipped was accepted ({} textures)", k, bit, v.len()));
            }
        }
    }
    if k != Kind::Ctpk && b.bytes.len() >= 4 {
        // the identifier in the other byte order / with its halves swapped is a wrong magic too
        for variant in 0..3 {
            let mut m = b.bytes.clone();
            match variant {
                0 => m[..4].reverse(),
                1 => m[..4].rotate_left(2),
                _ => {
                    m[..2].reverse();
                    m[2..4].reverse();
                }
            }
            if m[..4] == b.bytes[..4] {
                continue;
            }
            c.sit("wrong_magic");
            if let Some(Ok(v)) = read(c, k, &m, "read with the magic number in another byte order") {
                c.fail("wrong_magic_accepted", &format!("wrong_magic_accepted:{:?}", k), format!("{:?} input whose magic bytes are {} instead of {} was accepted ({} textures)", k, hex_short(&m[..4], 4), hex_short(&b.bytes[..4], 4), v.len()));
            }
        }
    }
    // ---- strict prefixes
    let must_fail_below = b.payload_ranges.iter().map(|(_, e)| *e).max().unwrap_or(0);
    let n = b.bytes.len();
    let mut cuts: Vec<usize> = Vec::new();
    if all_prefixes {
        cuts.extend(0..n);
    } else {
        let mut r = Rng::new(fnv(&b.bytes));
        for _ in 0..200 {
            cuts.push(r.below(n.max(1)));
        }
        for (s, e) in &b.payload_ranges {
            for d in [-1i64, 0, 1] {
                for p in [*s as i64 + d, *e as i64 + d] {
                    if p >= 0 && (p as usize) < n {
                        cuts.push(p as usize);
                    }
                }
            }
        }
        cuts.extend((0..n.min(0x60)).step_by(1));
        cuts.sort();
        cuts.dedup();
    }
    c.sit("prefixes");
    let mut k_eval = 0;
    for cut in cuts {
        k_eval += 1;
        match read(c, k, &b.bytes[..cut], &format!("{:?} read of a {}-byte prefix of a {}-byte file", k, cut, n)) {
            None => return, // panic reported
            Some(Ok(v)) => {
                if cut < must_fail_below {
                    c.sit("prefix_cutting_a_payload");
                    let (s, e) = b.payload_ranges.iter().find(|(_, e)| cut < *e).unwrap();
                    c.fail("truncated_accepted", &format!("truncated_accepted:{:?}", k), format!("prefix of {} bytes cuts the payload at [{:#x},{:#x}) but the read returned Ok ({} textures); {}", cut, s, e, v.len(), ctx()));
                    return;
                }
            }
            Some(Err(_)) => {
                if cut < must_fail_below {
                    c.sit("prefix_cutting_a_payload");
                }
            }
        }
    }
    c.eval(k_eval);
}

pub const REQUIRED: &[&str] = &["container_Ctpk", "container_Bch", "container_BchNew", "container_Cgfx", "container_Tpl", "zero_textures", "shuffled_placement", "wrong_magic", "prefixes", "prefix_cutting_a_payload", "all_prefixes", "large_dimensions", "two_textures_share_one_payload"];

pub fn run(cx: &mut Ctx) {
    cx.require(REQUIRED);
    cx.rule = "0..=6 textures of mixed supported formats (RGBA8, RGBA5551, RGB565, RGBA4, LA8, L8, A8, ETC1, ETC1A4; CI8+RGB5A3 palette for TPL), sizes {8,16,32}^2 (TPL: any 1..=40) plus directed large dimensions (1024x8, 8x1024, 512x16, 8x2048, 256x256), ASCII and non-ASCII names, packed by the reference builders into CTPK, BCH (both header variants), CGFX and TPL with default and random conforming placement of tables, names and payloads (filler between sections). Oracle: count, order, names, dimensions, and pixel data equal to what the library returns for the same payload packed alone; wrong magic must be rejected (BCH, CGFX, TPL); strict prefixes: never a panic, and Err whenever the cut lies before the end of any payload (directed cases enumerate every prefix, random cases 200 cuts + every payload boundary +-1 + the first 0x60 bytes). non-trivial = container with >=2 textures of different formats and shuffled sections; distinct by file hash".into();
    let miri = cfg!(miri);
    for k in KINDS {
        cx.case("directed", |c| {
            c.sit("all_prefixes");
            let mut rng = Rng::new(k as u64 + 40);
            check(c, k, &[], false, true);
            let texs: Vec<Tex> = (0..if miri { 1 } else { 3 }).map(|_| gen_tex(&mut rng, k, true)).collect();
            check(c, k, &texs, false, true);
            check(c, k, &texs, true, true);
        });
    }
    if !miri {
        // dimensions well beyond the usual ones (the size fields are 16 / 32 bits wide)
        for k in [Kind::Ctpk, Kind::Bch, Kind::BchNew, Kind::Cgfx] {
            cx.case("large_dimensions", |c| {
                c.sit("large_dimensions");
                let mut rng = Rng::new(k as u64 + 900);
                let mut texs = Vec::new();
                for (w, h, f) in [(1024usize, 8usize, Fmt::L8), (8, 1024, Fmt::A8), (512, 16, Fmt::Rgb565), (8, 2048, Fmt::L8), (256, 256, Fmt::Etc1)] {
                    let payload = if f == Fmt::Etc1 {
                        let mut p = Vec::new();
                        for _ in 0..w * h / 16 {
                            p.extend(random_defined_block(&mut rng));
                        }
                        p
                    } else {
                        rng.bytes(f.payload_len(w, h))
                    };
                    texs.push(Tex { name: format!("big{}x{}", w, h), width: w, height: h, format: f.code(), payload, palette: vec![] });
                }
                check(c, k, &texs, false, false);
                check(c, k, &texs[..2], true, false);
            });
        }
        cx.case("large_dimensions", |c| {
            let mut rng = Rng::new(950);
            let mut texs = Vec::new();
            for (w, h) in [(1024usize, 4usize), (8, 1024), (1000, 3)] {
                let aw = (w + 7) / 8 * 8;
                let ah = (h + 3) / 4 * 4;
                let palette: Vec<u16> = (0..200).map(|_| rng.u32() as u16).collect();
                let payload: Vec<u8> = (0..aw * ah).map(|_| rng.below(200) as u8).collect();
                texs.push(Tex { name: String::new(), width: w, height: h, format: 0, payload, palette });
            }
            check(c, Kind::Tpl, &texs, false, false);
        });
        // the top of the 16-bit dimension range (block alignment rounds these up to 65536)
        cx.case("large_dimensions", |c| {
            let mut rng = Rng::new(951);
            for (w, h) in [(65_535usize, 1usize), (1, 65_535), (65_529, 2), (65_528, 1)] {
                let aw = (w + 7) / 8 * 8;
                let ah = (h + 3) / 4 * 4;
                let palette: Vec<u16> = (0..256).map(|_| rng.u32() as u16).collect();
                let payload: Vec<u8> = (0..aw * ah).map(|_| rng.below(256) as u8).collect();
                let texs = vec![Tex { name: String::new(), width: w, height: h, format: 0, payload, palette }];
                check(c, Kind::Tpl, &texs, false, false);
            }
        });
    }
    let n = cx.a.n(60_000, 400_000);
    for i in 0..n {
        cx.case("random", |c| {
            let mut rng = c.rng.clone();
            let k = *rng.pick(&KINDS);
            let nt = if miri { rng.range(0, 2) } else { rng.range(0, 6) };
            let mut texs: Vec<Tex> = (0..nt).map(|_| gen_tex(&mut rng, k, miri)).collect();
            // twins: the same payload bytes referenced by two textures of different format
            if k != Kind::Tpl && !texs.is_empty() && rng.chance(1, 5) {
                let src = rng.below(texs.len());
                let twin_fmt = |f: u32| match f {
                    7 => Some(8u32),  // L8 <-> A8
                    8 => Some(7),
                    2 => Some(3),     // RGBA5551 <-> RGB565 <-> RGBA4 <-> LA8 (all 2 bytes per pixel)
                    3 => Some(4),
                    4 => Some(5),
                    5 => Some(2),
                    _ => None,
                };
                if let Some(f2) = twin_fmt(texs[src].format) {
                    let mut t = texs[src].clone();
                    t.format = f2;
                    t.name = format!("{}_twin", t.name);
                    let at = rng.below(texs.len() + 1);
                    texs.insert(at, t);
                    c.sit("two_textures_share_one_payload");
                }
            }
            // the same payload seen through swapped dimensions, and a texture listed twice
            if k != Kind::Tpl && !texs.is_empty() && rng.chance(1, 8) {
                let src = rng.below(texs.len());
                let mut t = texs[src].clone();
                if t.width != t.height && rng.bool() {
                    std::mem::swap(&mut t.width, &mut t.height);
                    t.name = format!("{}_turned", t.name);
                }
                let at = rng.below(texs.len() + 1);
                texs.insert(at, t);
                c.sit("two_textures_share_one_payload");
            }
            let shuffle = rng.chance(2, 3);
            c.rng = rng;
            check(c, k, &texs, shuffle, i % 97 == 0 && !miri);
        });
    }
    let _ = pixels::morton_sample_index(0, 0, 8);
}
