//! Oracle self-calibration (DESIGN §4.12): the independent reference code must agree with the
//! repository's golden files. A failure here is a harness error (exit 2), never a verdict.
use crate::refs::image;
use std::path::Path;

fn load(repo: &Path, name: &str) -> Option<Vec<u8>> {
    std::fs::read(repo.join("resources/test").join(name)).ok()
}

pub fn run(repo: &Path) -> Result<Vec<String>, String> {
    let mut done = Vec::new();
    // bin archive reference reader + canonical writer reproduce the golden archives
    let golden: &[(&str, bool)] = &[
        ("ArchiveTest_Mixed1.bin", false),
        ("ArchiveTest_Mixed2.bin", false),
        ("ArchiveTest_OnlyText.bin", false),
        ("TextArchive_Test.bin", false),
        ("TextArchive_Legacy_Test.bin", true),
        ("AssetBinary_Test.bin", false),
        ("FE14Aset_Test.bin", false),
    ];
    let mut n = 0;
    for (name, be) in golden {
        if let Some(b) = load(repo, name) {
            let p = image::parse_strict(&b, *be).map_err(|e| format!("reference reader rejects golden {}: {}", name, e))?;
            let w = image::write_canonical(&p.arch, None);
            if w != b {
                let i = w.iter().zip(b.iter()).position(|(x, y)| x != y).unwrap_or(w.len().min(b.len()));
                return Err(format!("reference writer does not reproduce golden {} (first difference at {:#x}, lengths {} vs {})", name, i, w.len(), b.len()));
            }
            n += 1;
        }
    }
    if n < 3 {
        return Err(format!("only {} golden bin archives found under {:?}", n, repo));
    }
    done.push(format!("bin-archive reader/writer reproduce {} golden files", n));
    crate::props::calibrate_more(repo, &mut done)?;
    Ok(done)
}
