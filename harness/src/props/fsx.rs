//! Layered-filesystem harness shared by C12, C13 and the filesystem part of C14:
//! on-disk snapshot monitor (M-fs) + layered-FS reference model (DESIGN §4.8).
use super::c01::check_flat;
use super::c11::{self, Entry, Expect};
use super::c15;
use super::c20;
use crate::ctx::Case;
use crate::json::{hex_short, J};
use crate::prng::{fnv, fnv_add, Rng};
use crate::refs::archive::{self, endian, GenOpts, RefArchive};
use crate::refs::containers::{arc_build, pack_build, pack_read, ArcPlan, PackPlan};
use crate::refs::image;
use crate::refs::loc::{self, Expected, GameCfg, Loc, LANGS};
use crate::refs::lz::{self, Class, Kind};
use crate::refs::strings::gen_ident;
use crate::refs::text::read_text_image;
use mila::{Game, Language, LayeredFilesystem, TextArchive, TextArchiveFormat, Texture};
use std::collections::{BTreeMap, BTreeSet};
use std::path::{Path, PathBuf};

#[derive(Clone, Copy, PartialEq, Eq, Debug)]
pub enum Focus {
    General,
    Listing,
    Localized,
}

#[derive(Clone, PartialEq, Debug)]
pub enum Node {
    File(Vec<u8>),
    Dir,
}
pub type Tree = BTreeMap<String, Node>;

pub const GAMES: [Game; 5] = [Game::FE9, Game::FE10, Game::FE13, Game::FE14, Game::FE15];

pub fn game_name(g: Game) -> &'static str {
    match g {
        Game::FE9 => "FE9",
        Game::FE10 => "FE10",
        Game::FE11 => "FE11",
        Game::FE12 => "FE12",
        Game::FE13 => "FE13",
        Game::FE14 => "FE14",
        Game::FE15 => "FE15",
    }
}

fn walk_into(root: &Path, rel: &str, out: &mut Tree) -> std::io::Result<()> {
    let dir = if rel.is_empty() { root.to_path_buf() } else { root.join(rel) };
    for e in std::fs::read_dir(&dir)? {
        let e = e?;
        let name = e.file_name().to_string_lossy().to_string();
        let r = if rel.is_empty() { name } else { format!("{}/{}", rel, name) };
        let ft = e.file_type()?;
        if ft.is_dir() {
            out.insert(r.clone(), Node::Dir);
            walk_into(root, &r, out)?;
        } else {
            out.insert(r, Node::File(std::fs::read(e.path())?));
        }
    }
    Ok(())
}

pub fn walk(root: &Path) -> Result<Tree, String> {
    let mut t = Tree::new();
    walk_into(root, "", &mut t).map_err(|e| format!("walking {:?}: {}", root, e))?;
    Ok(t)
}

fn add_parents(t: &mut Tree, path: &str) {
    let comps: Vec<&str> = path.split('/').collect();
    for i in 1..comps.len() {
        t.entry(comps[..i].join("/")).or_insert(Node::Dir);
    }
}

fn materialize(root: &Path, t: &Tree) -> std::io::Result<()> {
    std::fs::create_dir_all(root)?;
    for (p, n) in t {
        match n {
            Node::Dir => std::fs::create_dir_all(root.join(p))?,
            Node::File(b) => {
                if let Some(par) = root.join(p).parent() {
                    std::fs::create_dir_all(par)?;
                }
                std::fs::write(root.join(p), b)?
            }
        }
    }
    Ok(())
}

/// node addressed by an (already localized) path; a trailing slash only matches directories
fn lookup<'a>(t: &'a Tree, ap: &str) -> Option<&'a Node> {
    static ROOT: Node = Node::Dir;
    let trailing = ap.ends_with('/');
    let key = ap.trim_end_matches('/');
    if key.is_empty() {
        return Some(&ROOT);
    }
    match t.get(key) {
        Some(Node::File(_)) if trailing => None,
        other => other,
    }
}

pub struct World {
    pub base: PathBuf,
    pub roots: Vec<PathBuf>,
    pub layers: Vec<Tree>,
    pub game: Game,
    pub lang: Language,
    pub cfg: GameCfg,
    pub loc: Loc,
    pub fs: LayeredFilesystem,
    pub known_arcs: Vec<(Vec<u8>, c15::Files)>,
}

const DIRS: [&str; 15] = ["m", "data", "Subdir", "a", "x.y", "zz", "scripts", "tex\\hi", "ver1.0", "data.lz", "@E", "e_m", "sub..dir", "rom:", "Thumbs.db"];
const FILES: [&str; 38] = ["opening.bcstm", "se.bcwav", "movie.moflex", ".wh.one.bin", "\u{1F600}.bin", "\u{FF21}.bin", "v1..2.bin", "Data..bin.lz", "Thumbs.db", "desktop.ini", "..hidden", "GameData.bin.lz", "one.bin", "two.txt", "mess.cmp", "f.cms", "plain", "three.txt", "arc.arc", "pack.bin", "t.bin.lz", "GameData.bin", "n-1_@.dat", "tex.ctpk", "model.bch", "ui.bcres", "img.tpl", "odd\\name.bin", "UPPER.LZ", "Mixed.Cmp", "map.v2.cmp", "SAVE.CMS", "@E", "e_one.bin", "lz", "x.cmp.bak", "@U.lz", "cmp"];

pub fn gen_dir(rng: &mut Rng) -> String {
    let d = rng.range(0, 3);
    let v: Vec<&str> = (0..d).map(|_| *rng.pick(&DIRS)).collect();
    v.join("/")
}

pub fn gen_path(rng: &mut Rng) -> String {
    let dir = gen_dir(rng);
    let f = if rng.chance(1, 40) {
        // a file name close to the 255-byte limit of a path component
        let total = *rng.pick(&[200usize, 247, 250, 251, 252, 253, 254, 255]);
        let ext = *rng.pick(&[".bin", ".dat", ".lz", ".cmp"]);
        format!("{}{}", "L".repeat(total - ext.len()), ext)
    } else if rng.chance(1, 6) { format!("{}.{}", gen_ident(rng, 4), rng.pick(&["bin", "txt", "lz", "cmp"])) } else { rng.pick(&FILES).to_string() };
    if dir.is_empty() {
        f
    } else {
        format!("{}/{}", dir, f)
    }
}

fn payload(rng: &mut Rng) -> Vec<u8> {
    if rng.chance(1, 9) {
        // a payload that is itself a complete compressed stream (an already-compressed blob)
        let lz13 = rng.bool();
        return ref_stream(rng, &GameCfg { be: false, unicode: false, lz13 }, 120);
    }
    match rng.below(6) {
        0 => Vec::new(),
        1 => {
            let n = rng.range(1, 3);
            rng.bytes(n)
        }
        2 => {
            let n = rng.range(10, 600);
            (0..n).map(|i| (i % 7) as u8).collect()
        }
        3 => {
            let n = rng.range(1, 2048);
            rng.bytes(n)
        }
        4 => b"the quick brown fox jumps over the lazy dog. the quick brown fox.".to_vec(),
        _ => {
            let n = rng.range(1, 64);
            rng.bytes(n)
        }
    }
}

/// a valid compressed stream for the game's format holding `data` (reference encoder)
fn ref_stream(rng: &mut Rng, cfg: &GameCfg, max_out: usize) -> Vec<u8> {
    if cfg.lz13 && max_out >= 100 && rng.chance(1, 25) {
        // a highly compressed file: a few maximum-length LZ11 references (up to 0x10110 bytes each)
        let mut t = vec![lz::Tok::Lit(rng.u8())];
        let mut total = 1usize;
        if rng.bool() {
            t.push(lz::Tok::Lit(rng.u8()));
            total += 1;
        }
        for _ in 0..rng.range(1, 3) {
            let l = *rng.pick(&[65808usize, 65808, 40000, 4097, 30000]);
            t.push(lz::Tok::Ref(l, total.min(2)));
            total += l;
        }
        let bare = lz::encode(Kind::Lz11, &t, total);
        return if rng.bool() { bare } else { lz::wrap13(&bare) };
    }
    if cfg.lz13 {
        let (t, d) = lz::gen_tokens(rng, Kind::Lz11, max_out);
        let bare = lz::encode(Kind::Lz11, &t, d.len());
        match rng.below(4) {
            0 => bare,
            1 => lz::stored(&d),
            _ => lz::wrap13(&bare),
        }
    } else {
        let (t, d) = lz::gen_tokens(rng, Kind::Lz10, max_out);
        lz::encode(Kind::Lz10, &t, d.len())
    }
}

fn gen_archive_content(rng: &mut Rng, be: bool) -> RefArchive {
    let o = GenOpts { max_cells: 12, allow_unaligned_len: false, cstrings: false, max_labels: 5, string_len: 5 };
    let mut m = archive::gen_content(rng, &o);
    m.be = be;
    m
}

fn monitor_guard<T>(f: impl FnOnce() -> T) -> Option<T> {
    crate::monitor::guarded(f).ok()
}

pub fn tex_kind_of(p: &str) -> Option<c20::Kind> {
    if p.ends_with(".ctpk") {
        Some(c20::Kind::Ctpk)
    } else if p.ends_with(".bch") {
        Some(c20::Kind::Bch)
    } else if p.ends_with(".bcres") {
        Some(c20::Kind::Cgfx)
    } else if p.ends_with(".tpl") {
        Some(c20::Kind::Tpl)
    } else {
        None
    }
}

fn direct_textures(k: c20::Kind, raw: &[u8]) -> Result<Vec<Texture>, String> {
    match k {
        c20::Kind::Ctpk => mila::ctpk::read(raw).map_err(|e| e.to_string()),
        c20::Kind::Bch | c20::Kind::BchNew => mila::bch::read(raw).map_err(|e| e.to_string()),
        c20::Kind::Cgfx => mila::cgfx::read(raw).map_err(|e| e.to_string()),
        c20::Kind::Tpl => mila::tpl::Tpl::extract_textures(raw).map_err(|e| e.to_string()),
    }
}

impl World {
    pub fn new(c: &mut Case, scratch: &Path, rng: &mut Rng, focus: Focus) -> Result<World, String> {
        let base = scratch.join(format!("case{}", c.idx));
        let _ = std::fs::remove_dir_all(&base);
        std::fs::create_dir_all(&base).map_err(|e| format!("creating {:?}: {}", base, e))?;
        let nlayers = rng.range(1, 4);
        let game = *rng.pick(&GAMES);
        let lang = *rng.pick(&LANGS);
        let cfg = loc::game_cfg(game).unwrap();
        let l = loc::loc_of_game(game).unwrap();
        let mut layers: Vec<Tree> = Vec::new();
        let mut known_arcs = Vec::new();
        // a shared set of paths so that the same path appears in several layers
        let shared: Vec<String> = (0..rng.range(2, 6)).map(|_| gen_path(rng)).collect();
        for _ in 0..nlayers {
            let mut t = Tree::new();
            let nfiles = rng.range(0, if focus == Focus::Listing { 10 } else { 7 });
            for _ in 0..nfiles {
                let mut p = if rng.chance(1, 2) { rng.pick(&shared).clone() } else { gen_path(rng) };
                if rng.chance(1, 3) {
                    // put it where a localized lookup would find it
                    if let Expected::Path(lp) = loc::localize(l, lang, &p) {
                        if !lp.ends_with('/') {
                            p = lp;
                        }
                    }
                }
                if p.split('/').any(|comp| comp.len() > 255) {
                    continue;
                }
                // do not create a file below something that is already a file, nor over a directory
                let comps: Vec<&str> = p.split('/').collect();
                if (1..comps.len()).any(|i| matches!(t.get(&comps[..i].join("/")), Some(Node::File(_)))) || t.contains_key(&p) {
                    continue;
                }
                let content = if loc::compressed_suffix(&cfg, &p) {
                    if rng.chance(1, 5) {
                        let n = rng.range(0, 20);
                        rng.bytes(n)
                    } else {
                        ref_stream(rng, &cfg, 200)
                    }
                } else if p.ends_with(".arc") {
                    let mut files = c15::gen_files(rng, 4, 40);
                    files.retain(|(n, _)| !n.is_empty() && n != "Count" && n != "Info" && n != "Data");
                    let img = arc_build(&files, &ArcPlan { padded_header: rng.bool(), decoy_labels: true, ..Default::default() }, rng);
                    known_arcs.push((img.clone(), files));
                    img
                } else if p.ends_with(".ctpk") || p.ends_with(".bch") || p.ends_with(".bcres") || p.ends_with(".tpl") {
                    let k = tex_kind_of(&p).unwrap();
                    let nt = rng.range(0, 3);
                    let texs: Vec<crate::refs::texcont::Tex> = (0..nt).map(|_| c20::gen_tex(rng, k, true)).collect();
                    let mut img = c20::build(k, &texs, rng, rng.clone().bool()).bytes;
                    if rng.chance(1, 6) && !img.is_empty() {
                        let cut = rng.below(img.len());
                        img.truncate(cut);
                    }
                    img
                } else if p.ends_with("pack.bin") {
                    let files = c15::gen_files(rng, 4, 40);
                    pack_build(&files, &PackPlan::default(), rng)
                } else if p.ends_with(".bin") {
                    let be = if rng.chance(3, 4) { cfg.be } else { !cfg.be };
                    image::write_canonical(&gen_archive_content(rng, be), None)
                } else {
                    payload(rng)
                };
                add_parents(&mut t, &p);
                t.insert(p, Node::File(content));
            }
            for _ in 0..rng.range(0, 3) {
                let d = gen_dir(rng);
                if !d.is_empty() && !t.contains_key(&d) {
                    let comps: Vec<&str> = d.split('/').collect();
                    if (1..comps.len()).any(|i| matches!(t.get(&comps[..i].join("/")), Some(Node::File(_)))) {
                        continue;
                    }
                    add_parents(&mut t, &d);
                    t.insert(d, Node::Dir);
                }
            }
            // a file shadowing a directory of the same name in another layer
            if rng.chance(1, 4) && !layers.is_empty() {
                let prev: &Tree = rng.pick(&layers);
                let dirs: Vec<&String> = prev.iter().filter(|(_, n)| **n == Node::Dir).map(|(p, _)| p).collect();
                if !dirs.is_empty() {
                    let d = (*rng.pick(&dirs)).clone();
                    let comps: Vec<&str> = d.split('/').collect();
                    let blocked = (1..comps.len()).any(|i| matches!(t.get(&comps[..i].join("/")), Some(Node::File(_))));
                    if !t.contains_key(&d) && !blocked {
                        add_parents(&mut t, &d);
                        t.insert(d, Node::File(b"shadow".to_vec()));
                    }
                }
            }
            layers.push(t);
        }
        // collisions: ordinary directories / files named exactly like this game's language marker,
        // and paths that differ from existing ones only in letter case
        if rng.chance(1, 5) {
            let add = |t: &mut Tree, p: String, body: Vec<u8>| {
                let comps: Vec<&str> = p.split('/').collect();
                if !(1..comps.len()).any(|i| matches!(t.get(&comps[..i].join("/")), Some(Node::File(_)))) && !t.contains_key(&p) {
                    add_parents(t, &p);
                    t.insert(p, Node::File(body));
                }
            };
            match loc::marker(l, lang) {
                loc::Marker::Dir(d) => {
                    c.sit("directory_named_like_the_language_directory");
                    for t in layers.iter_mut() {
                        if rng.bool() {
                            add(t, format!("{}/outer.txt", d), b"outer".to_vec());
                            add(t, format!("{}/{}/inner.txt", d, d), b"inner".to_vec());
                            add(t, format!("m/{}/plain.txt", d), b"plain".to_vec());
                        }
                    }
                }
                loc::Marker::Prefix(x) => {
                    c.sit("name_starting_with_the_language_prefix");
                    for t in layers.iter_mut() {
                        if rng.bool() {
                            add(t, format!("m/{}one.txt", x), b"prefixed".to_vec());
                            add(t, format!("m/{}{}one.txt", x, x), b"twice".to_vec());
                            add(t, format!("{}/file.txt", x), b"dir named like the prefix".to_vec());
                        }
                    }
                }
                _ => {}
            }
            // case variants of existing paths, in another layer than the original
            let existing: Vec<String> = layers.iter().flat_map(|t| t.iter().filter(|(_, n)| matches!(n, Node::File(_))).map(|(p, _)| p.clone())).collect();
            if !existing.is_empty() && layers.len() >= 2 {
                c.sit("paths_differing_only_in_letter_case");
                for _ in 0..rng.range(1, 3) {
                    let p = rng.pick(&existing).clone();
                    let flipped: String = p.chars().map(|ch| if ch.is_ascii_lowercase() { ch.to_ascii_uppercase() } else { ch.to_ascii_lowercase() }).collect();
                    let parts: Vec<&str> = p.rsplitn(2, '/').collect();
                    let fparts: Vec<&str> = flipped.rsplitn(2, '/').collect();
                    // flip only the final component (so that the directories stay shared)
                    let variant = if parts.len() == 2 { format!("{}/{}", parts[1], fparts[0]) } else { fparts[0].to_string() };
                    if variant != p {
                        let li = rng.below(layers.len());
                        add(&mut layers[li], variant, b"case variant".to_vec());
                    }
                }
            }
        }
        // thresholds: a directory with more than 64 entries some of which exist in several layers,
        // and a chain of more than 32 nested directories
        if rng.chance(1, 30) {
            c.sit("directory_with_more_than_64_entries_and_cross_layer_duplicates");
            let n = rng.range(65, 140);
            let dir = if rng.bool() { "wide".to_string() } else { format!("{}/wide", rng.pick(&DIRS)) };
            let clear = |t: &Tree, p: &str| -> bool {
                let comps: Vec<&str> = p.split('/').collect();
                !(1..comps.len()).any(|i| matches!(t.get(&comps[..i].join("/")), Some(Node::File(_)))) && !t.contains_key(p)
            };
            for k in 0..n {
                let p = format!("{}/w{:03}.bin", dir, k);
                let li = if k % 9 == 0 { layers.len() - 1 } else { 0 };
                if clear(&layers[li], &p) {
                    add_parents(&mut layers[li], &p);
                    layers[li].insert(p.clone(), Node::File(vec![k as u8; k % 5]));
                }
                // some of the early ones again in every other layer
                if k % 7 == 0 {
                    for t in layers.iter_mut() {
                        if clear(t, &p) {
                            add_parents(t, &p);
                            t.insert(p.clone(), Node::File(vec![0xEE; 3]));
                        }
                    }
                }
            }
        }
        if rng.chance(1, 30) {
            c.sit("more_than_32_nested_directories");
            let depth = rng.range(33, 45);
            let li = rng.below(layers.len());
            let mut p = String::from("deep");
            for k in 0..depth {
                p.push_str(if k % 2 == 0 { "/d" } else { "/e" });
            }
            let file = format!("{}/leaf.bin", p);
            let comps: Vec<&str> = file.split('/').collect();
            if !(1..comps.len()).any(|i| matches!(layers[li].get(&comps[..i].join("/")), Some(Node::File(_)))) {
                add_parents(&mut layers[li], &file);
                layers[li].insert(file, Node::File(b"leaf".to_vec()));
            }
        }
        if c.idx % 4 == 3 {
            c.sit("layer_roots_with_non_ascii_names");
        }
        let mut roots = Vec::new();
        for i in 0..layers.len() {
            // every fourth world keeps its layers in directories with non-ASCII names
            let r = if c.idx % 4 == 3 { base.join(format!("L{}/パッチ Ü{}", i, i)) } else { base.join(format!("L{}", i)) };
            if rng.chance(1, 25) {
                // a tree stored under its full original path: the layer contains its own absolute path again
                let file = format!("{}/mirror.txt", r.display().to_string().trim_start_matches('/'));
                let comps: Vec<&str> = file.split('/').collect();
                if !(1..comps.len()).any(|k| matches!(layers[i].get(&comps[..k].join("/")), Some(Node::File(_)))) && comps.iter().all(|x| x.len() <= 255) {
                    c.sit("layer_contains_its_own_absolute_path_again");
                    add_parents(&mut layers[i], &file);
                    layers[i].insert(file, Node::File(b"mirror".to_vec()));
                }
            }
            materialize(&r, &layers[i]).map_err(|e| format!("materializing layer {}: {}", i, e))?;
            roots.push(r);
        }
        // now and then the layer list names the lowest directory again as the top layer: [L0, .., L0]
        if roots.len() >= 2 && rng.chance(1, 12) {
            c.sit("layer_list_names_a_directory_twice");
            roots.push(roots[0].clone());
            let t0 = layers[0].clone();
            layers.push(t0);
        }
        // the same directories may be named in a roundabout way (a ".." or "." step, a doubled or trailing separator)
        let mut spelled: Vec<String> = roots.iter().map(|r| r.display().to_string()).collect();
        if rng.chance(1, 8) {
            c.sit("layer_roots_spelled_non_canonically");
            for (i, r) in roots.iter().enumerate() {
                let name = r.file_name().map(|n| n.to_string_lossy().to_string()).unwrap_or_default();
                let parent = r.parent().map(|p| p.display().to_string()).unwrap_or_default();
                spelled[i] = match rng.below(6) {
                    0 => format!("{}/../{}", r.display(), name),
                    1 => format!("{}/./{}", parent, name),
                    2 => format!("{}/", r.display()),
                    3 => format!("{}//{}", parent, name),
                    4 => format!("{}/{}/../{}/.", parent, name, name),
                    _ => r.display().to_string(),
                };
            }
        }
        let fs = c
            .lib("LayeredFilesystem::new", || LayeredFilesystem::new(spelled.clone(), lang, game).map_err(|e| e.to_string()))
            .ok_or("panic in LayeredFilesystem::new")?
            .map_err(|e| format!("LayeredFilesystem::new failed for a supported game: {}", e))?;
        // configuration accessors must agree with the codec table of the statement
        let be = matches!(fs.endian(), mila::Endian::Big);
        let uni = matches!(fs.text_archive_format(), mila::TextArchiveFormat::Unicode);
        if be != cfg.be || uni != cfg.unicode || fs.language() != lang {
            c.fail(
                "configuration",
                "accessor_config",
                format!("{} {}: endian()={:?} text_archive_format()={:?} language()={:?}", game_name(game), loc::lang_name(lang), fs.endian(), fs.text_archive_format(), fs.language()),
            );
        }
        // half of the worlds run on a clone of the filesystem object: a clone must behave identically
        let fs = if rng.bool() {
            c.sit("operations_on_a_cloned_filesystem");
            let cl = c.lib("LayeredFilesystem::clone", || fs.clone()).ok_or("panic in clone")?;
            // the localizer accessor of the clone resolves like the original
            let p = "a/b.bin";
            let (x, y) = (fs.localizer().localize(p, &lang).ok(), cl.localizer().localize(p, &lang).ok());
            if x != y {
                c.fail("configuration", "clone_localizer", format!("clone localizes {:?} to {:?}, original to {:?}", p, y, x));
            }
            cl
        } else {
            fs
        };
        Ok(World { base, roots, layers, game, lang, cfg, loc: l, fs, known_arcs })
    }

    pub fn top(&self) -> usize {
        self.layers.len() - 1
    }

    /// number N of the on-disk directory `L<N>` that is the top layer (differs from `top()` when the
    /// layer list names the lowest directory again as the top layer); the strace checker keys on it
    pub fn top_dir_index(&self) -> usize {
        let r = &self.roots[self.top()];
        self.roots.iter().position(|x| x == r).unwrap_or(self.top())
    }

    pub fn snapshot(&self) -> Result<Vec<Tree>, String> {
        self.roots.iter().map(|r| walk(r)).collect()
    }

    /// path actually addressed; None = unsupported game/language pair or no final component
    pub fn actual(&self, path: &str, localized: bool) -> Option<String> {
        if !localized {
            return Some(path.to_string());
        }
        match loc::localize(self.loc, self.lang, path) {
            Expected::Path(p) => Some(p),
            Expected::Err => None,
        }
    }

    pub fn describe(&self) -> String {
        let layers: Vec<String> = self
            .layers
            .iter()
            .enumerate()
            .map(|(i, t)| {
                let items: Vec<String> = t.iter().map(|(p, n)| match n { Node::Dir => format!("{}/", p), Node::File(b) => format!("{}({}B)", p, b.len()) }).collect();
                format!("L{}: [{}]", i, items.join(", "))
            })
            .collect();
        format!("{} {} layers={{{}}}", game_name(self.game), loc::lang_name(self.lang), layers.join("; "))
    }

    pub fn cleanup(&self) {
        let _ = std::fs::remove_dir_all(&self.base);
    }
}

#[derive(Clone, Debug)]
pub enum FOp {
    Write(String, Vec<u8>, bool),
    Read(String, bool),
    Exists(String, bool),
    FileExists(String, bool),
    DirExists(String, bool),
    Resolve(String, bool),
    CreateDir(String, bool),
    List(String, Option<String>, bool),
    Subdirs(String, bool),
    WriteArchive(String, RefArchive, bool),
    ReadArchive(String, bool),
    WriteText(String, Vec<(String, String)>, bool),
    ReadText(String, bool),
    ReadPack(String, bool),
    ReadArc(String, bool),
    ReadTex(String, bool),
}

impl FOp {
    fn short(&self) -> String {
        match self {
            FOp::Write(p, b, l) => format!("write({:?}, {}B, localized={})", p, b.len(), l),
            FOp::WriteArchive(p, m, l) => format!("write_archive({:?}, {}B data, localized={})", p, m.size(), l),
            FOp::WriteText(p, e, l) => format!("write_text_archive({:?}, {} entries, localized={})", p, e.len(), l),
            other => format!("{:?}", other).to_lowercase(),
        }
    }
}

/// glob family of C13, evaluated on the path relative to the listed directory
pub fn ref_match(pattern: Option<&str>, rel: &str) -> bool {
    let pat = match pattern {
        None => return true,
        Some(p) => p,
    };
    fn comp_match(p: &str, s: &str) -> bool {
        // `*` matches any run of characters inside one component
        let parts: Vec<&str> = p.split('*').collect();
        if parts.len() == 1 {
            return p == s;
        }
        let mut pos = 0;
        for (i, part) in parts.iter().enumerate() {
            if i == 0 {
                if !s.starts_with(part) {
                    return false;
                }
                pos = part.len();
            } else if i == parts.len() - 1 {
                return s.len() >= pos + part.len() && s[pos..].ends_with(part);
            } else {
                match s[pos..].find(part) {
                    Some(k) => pos += k + part.len(),
                    None => return false,
                }
            }
        }
        true
    }
    fn rec(p: &[&str], s: &[&str]) -> bool {
        match p.first() {
            None => s.is_empty(),
            Some(&"**") => (0..=s.len()).any(|k| rec(&p[1..], &s[k..])),
            Some(pc) => !s.is_empty() && comp_match(pc, s[0]) && rec(&p[1..], &s[1..]),
        }
    }
    let pc: Vec<&str> = pat.split('/').collect();
    let sc: Vec<&str> = rel.split('/').collect();
    rec(&pc, &sc)
}

pub fn expected_list(w: &World, ap: &str, pattern: Option<&str>) -> Vec<String> {
    let key = ap.trim_end_matches('/');
    let mut out: BTreeSet<String> = BTreeSet::new();
    for t in &w.layers {
        if lookup(t, ap).is_none() {
            continue;
        }
        if !key.is_empty() && !matches!(t.get(key), Some(Node::Dir)) {
            continue; // a file: nothing below it
        }
        for p in t.keys() {
            let rel = if key.is_empty() {
                p.as_str()
            } else if p.len() > key.len() + 1 && p.starts_with(key) && p.as_bytes()[key.len()] == b'/' {
                &p[key.len() + 1..]
            } else {
                continue;
            };
            if ref_match(pattern, rel) {
                out.insert(p.clone());
            }
        }
    }
    out.into_iter().collect()
}

pub fn expected_subdirs(w: &World, ap: &str) -> Vec<String> {
    let key = ap.trim_end_matches('/');
    let mut out: BTreeSet<String> = BTreeSet::new();
    for t in &w.layers {
        if lookup(t, ap).is_none() {
            continue;
        }
        for (p, n) in t {
            if *n != Node::Dir {
                continue;
            }
            let rel = if key.is_empty() {
                p.as_str()
            } else if p.len() > key.len() + 1 && p.starts_with(key) && p.as_bytes()[key.len()] == b'/' {
                &p[key.len() + 1..]
            } else {
                continue;
            };
            if !rel.contains('/') {
                out.insert(p.clone());
            }
        }
    }
    out.into_iter().collect()
}

/// what reading the stored bytes of `path` must give (None = not asserted)
fn expected_read(w: &World, path: &str, stored: &[u8]) -> Option<Result<Vec<u8>, ()>> {
    if !loc::compressed_suffix(&w.cfg, path) {
        return Some(Ok(stored.to_vec()));
    }
    let entry = if w.cfg.lz13 { Entry::CfLz13 } else { Entry::CfLz10 };
    match c11::expectation(entry, stored).0 {
        Expect::Data(d) => Some(Ok(d)),
        Expect::Err(_) => Some(Err(())),
        _ => None,
    }
}

fn find_file<'a>(w: &'a World, ap: &str) -> Option<(usize, &'a Vec<u8>)> {
    for i in (0..w.layers.len()).rev() {
        if let Some(Node::File(b)) = lookup(&w.layers[i], ap) {
            return Some((i, b));
        }
    }
    None
}

/// Execute one filesystem operation under the monitors. Returns false when a violation was recorded.
pub fn exec(c: &mut Case, w: &mut World, op: &FOp) -> bool {
    {
        // safety net: the workload only ever uses relative paths of plain components
        let p = match op {
            FOp::Write(p, _, _) | FOp::Read(p, _) | FOp::Exists(p, _) | FOp::FileExists(p, _) | FOp::DirExists(p, _) | FOp::Resolve(p, _) | FOp::CreateDir(p, _) | FOp::List(p, _, _) | FOp::Subdirs(p, _)
            | FOp::WriteArchive(p, _, _) | FOp::ReadArchive(p, _) | FOp::WriteText(p, _, _) | FOp::ReadText(p, _) | FOp::ReadPack(p, _) | FOp::ReadArc(p, _) | FOp::ReadTex(p, _) => p,
        };
        if p.starts_with('/') || p.split('/').any(|c| c == ".." || c == ".") || p.contains("//") {
            c.st.harness_errors.push(format!("generator produced a non-plain path {:?}", p));
            return false;
        }
    }
    let before = match w.snapshot() {
        Ok(s) => s,
        Err(e) => {
            c.st.harness_errors.push(e);
            return false;
        }
    };
    if before != w.layers {
        c.st.harness_errors.push(format!("model and disk out of sync before {}", op.short()));
        return false;
    }
    let what = op.short();
    let ctxs = |m: &str, w: &World| format!("{}: {} | {}", what, m, w.describe());
    let (path, localized) = match op {
        FOp::Write(p, _, l) | FOp::Read(p, l) | FOp::Exists(p, l) | FOp::FileExists(p, l) | FOp::DirExists(p, l) | FOp::Resolve(p, l) | FOp::CreateDir(p, l) | FOp::List(p, _, l) | FOp::Subdirs(p, l)
        | FOp::WriteArchive(p, _, l) | FOp::ReadArchive(p, l) | FOp::WriteText(p, _, l) | FOp::ReadText(p, l) | FOp::ReadPack(p, l) | FOp::ReadArc(p, l) | FOp::ReadTex(p, l) => (p.clone(), *l),
    };
    let ap = w.actual(&path, localized);
    if let Some(a) = &ap {
        if a.split('/').any(|comp| comp.len() > 255) {
            // the localized name does not fit a path component on this platform: outside the domain
            c.sit("skipped_component_longer_than_255_bytes");
            return true;
        }
        if a.split('/').any(|comp| comp.len() >= 252) {
            c.sit("component_of_252_to_255_bytes");
        }
    }
    c.sit(if localized { "localized_call" } else { "unlocalized_call" });
    if ap.is_none() {
        c.sit("unsupported_pair_call");
    }
    let mut ok = true;
    marker("begin", c.idx, w.top_dir_index());
    // ------------------------------------------------------------------ perform + result oracle
    let mut top_expected: Option<Tree> = Some(before[w.top()].clone()); // None = adopt (validated separately)
    match op {
        FOp::Read(..) | FOp::ReadArchive(..) | FOp::ReadText(..) | FOp::ReadPack(..) | FOp::ReadArc(..) | FOp::ReadTex(..) => {
            let raw_expect: Option<Result<Vec<u8>, ()>> = match &ap {
                None => Some(Err(())),
                Some(ap) => match find_file(w, ap) {
                    None => {
                        c.sit("read_missing_file");
                        Some(Err(()))
                    }
                    Some((layer, stored)) => {
                        if layer + 1 < w.layers.len() && lookup(&w.layers[layer], ap).is_some() {
                            let skipped = (layer + 1..w.layers.len()).count();
                            if skipped >= 2 {
                                c.sit("read_falls_through_two_layers");
                            } else {
                                c.sit("read_falls_through_a_layer");
                            }
                        }
                        if (0..layer).any(|i| matches!(lookup(&w.layers[i], ap), Some(Node::File(_)))) {
                            c.sit("read_shadowed_lower_file");
                        }
                        if loc::compressed_suffix(&w.cfg, &path) {
                            c.sit("read_compressed_suffix");
                        }
                        expected_read(w, &path, stored)
                    }
                },
            };
            match op {
                FOp::Read(..) => {
                    let r = c.lib(&what, || w.fs.read(&path, localized).map_err(|e| e.to_string()));
                    if let Some(r) = r {
                        match (&raw_expect, &r) {
                            (Some(Ok(e)), Ok(g)) if e != g => {
                                c.fail("read", "read_wrong_bytes", ctxs(&format!("returned {} bytes ({}), expected {} bytes ({}) from the highest-priority layer holding the file", g.len(), hex_short(g, 40), e.len(), hex_short(e, 40)), w));
                                ok = false;
                            }
                            (Some(Ok(e)), Err(err)) => {
                                c.fail("read", "read_wrong_error", ctxs(&format!("returned Err({}), expected {} bytes", err, e.len()), w));
                                ok = false;
                            }
                            (Some(Err(())), Ok(g)) => {
                                c.fail("read", "read_should_fail", ctxs(&format!("returned Ok({} bytes) but no layer holds a readable file at that path", g.len()), w));
                                ok = false;
                            }
                            _ => {}
                        }
                    } else {
                        ok = false;
                    }
                }
                FOp::ReadArchive(..) => {
                    let r = c.lib(&what, || w.fs.read_archive(&path, localized).map_err(|e| e.to_string()));
                    match (r, &raw_expect) {
                        (None, _) => ok = false,
                        (Some(Ok(a)), Some(Err(()))) => {
                            let _ = a;
                            c.fail("typed", "read_archive_should_fail", ctxs("returned Ok but the byte-level read must fail", w));
                            ok = false;
                        }
                        (Some(r), Some(Ok(raw))) => {
                            // byte-level read composed with the game's endianness
                            match image::parse_strict(raw, w.cfg.be) {
                                Ok(p) if p.arch.text.keys().chain(p.arch.ptrs.keys()).all(|k| k % 4 == 0) => {
                                    c.sit("read_archive_conforming");
                                    match r {
                                        Err(e) => {
                                            c.fail("typed", "read_archive_err", ctxs(&format!("returned Err({}) for a conforming {} archive", e, if w.cfg.be { "big-endian" } else { "little-endian" }), w));
                                            ok = false;
                                        }
                                        Ok(a) => match archive::observe_public(&a, w.cfg.be) {
                                            Err(e) => {
                                                c.fail("typed", "read_archive_accessor", ctxs(&e, w));
                                                ok = false;
                                            }
                                            Ok(got) => {
                                                let rd = |_c: usize| -> Result<Option<String>, String> { Ok(None) };
                                                if let Some(d) = check_flat(&p.arch, &got, &rd) {
                                                    c.fail("typed", "read_archive_content", ctxs(&format!("content differs from BinArchive::from_bytes(read(p), {}): {}", if w.cfg.be { "Big" } else { "Little" }, d), w));
                                                    ok = false;
                                                }
                                            }
                                        },
                                    }
                                }
                                _ => {} // not a conforming archive in the game's endianness: only "no panic"
                            }
                        }
                        _ => {}
                    }
                }
                FOp::ReadText(..) => {
                    let r = c.lib(&what, || w.fs.read_text_archive(&path, localized).map_err(|e| e.to_string()));
                    match (r, &raw_expect) {
                        (None, _) => ok = false,
                        (Some(Ok(_)), Some(Err(()))) => {
                            c.fail("typed", "read_text_should_fail", ctxs("returned Ok but the byte-level read must fail", w));
                            ok = false;
                        }
                        (Some(r), Some(Ok(raw))) => {
                            if let Ok(img) = read_text_image(raw, w.cfg.be, w.cfg.unicode) {
                                c.sit("read_text_conforming");
                                match r {
                                    Err(e) => {
                                        c.fail("typed", "read_text_err", ctxs(&format!("returned Err({}) for a conforming text archive in the game's format", e), w));
                                        ok = false;
                                    }
                                    Ok(t) => {
                                        let got: Vec<(String, String)> = t.get_entries().iter().map(|(k, v)| (k.clone(), v.clone())).collect();
                                        let exp: Vec<(String, String)> = img.entries.iter().map(|(k, v, _)| (k.clone(), v.clone())).collect();
                                        if got != exp || (w.cfg.unicode && Some(t.get_title().to_string()) != img.title) {
                                            c.fail("typed", "read_text_content", ctxs(&format!("entries {:?} differ from the file's {:?} (format {}, endian {})", got, exp, if w.cfg.unicode { "UTF-16" } else { "Shift-JIS" }, if w.cfg.be { "BE" } else { "LE" }), w));
                                            ok = false;
                                        }
                                    }
                                }
                            }
                        }
                        _ => {}
                    }
                }
                FOp::ReadPack(..) => {
                    let r = c.lib(&what, || w.fs.read_fe9_arc(&path, localized).map_err(|e| e.to_string()));
                    match (r, &raw_expect) {
                        (None, _) => ok = false,
                        (Some(Ok(_)), Some(Err(()))) => {
                            c.fail("typed", "read_pack_should_fail", ctxs("returned Ok but the byte-level read must fail", w));
                            ok = false;
                        }
                        (Some(r), Some(Ok(raw))) => {
                            if let Ok(entries) = pack_read(raw) {
                                let mut names = BTreeSet::new();
                                if entries.iter().all(|e| names.insert(e.name.clone())) {
                                    c.sit("read_pack_conforming");
                                    match r {
                                        Err(e) => {
                                            c.fail("typed", "read_pack_err", ctxs(&format!("returned Err({}) for a conforming pack archive", e), w));
                                            ok = false;
                                        }
                                        Ok(m) => {
                                            let got: Vec<(String, Vec<u8>)> = m.iter().map(|(k, v)| (k.clone(), v.clone())).collect();
                                            let exp: Vec<(String, Vec<u8>)> = entries.iter().map(|e| (e.name.clone(), e.body.clone())).collect();
                                            if got != exp {
                                                c.fail("typed", "read_pack_content", ctxs("files differ from fe9_arc::parse(read(p))", w));
                                                ok = false;
                                            }
                                        }
                                    }
                                }
                            }
                        }
                        _ => {}
                    }
                }
                FOp::ReadArc(..) => {
                    let r = c.lib(&what, || w.fs.read_arc(&path, localized).map_err(|e| e.to_string()));
                    match (r, &raw_expect) {
                        (None, _) => ok = false,
                        (Some(Ok(_)), Some(Err(()))) => {
                            c.fail("typed", "read_arc_should_fail", ctxs("returned Ok but the byte-level read must fail", w));
                            ok = false;
                        }
                        (Some(r), Some(Ok(raw))) => {
                            if let Some((_, files)) = w.known_arcs.iter().find(|(img, _)| img == raw) {
                                c.sit("read_arc_conforming");
                                match r {
                                    Err(e) => {
                                        c.fail("typed", "read_arc_err", ctxs(&format!("returned Err({}) for a conforming arc", e), w));
                                        ok = false;
                                    }
                                    Ok(m) => {
                                        if m.len() != files.len() || files.iter().any(|(n, b)| m.get(n) != Some(b)) {
                                            c.fail("typed", "read_arc_content", ctxs("files differ from arc::from_bytes(read(p))", w));
                                            ok = false;
                                        }
                                    }
                                }
                            }
                        }
                        _ => {}
                    }
                }
                FOp::ReadTex(..) => {
                    let k = tex_kind_of(&path.trim_end_matches(".lz").trim_end_matches(".cmp").to_string()).unwrap_or(c20::Kind::Ctpk);
                    // key -> (the texture's own filename field, width, height, pixels)
                    type TexMap = std::collections::BTreeMap<String, (String, usize, usize, Vec<u8>)>;
                    let to_map = |v: Vec<Texture>| -> TexMap { v.into_iter().map(|t| (t.filename.clone(), (t.filename.clone(), t.width, t.height, t.pixel_data))).collect() };
                    let r: Option<Result<TexMap, String>> = c.lib(&what, || match k {
                        c20::Kind::Ctpk => w.fs.read_ctpk_textures(&path, localized).map(|m| m.into_iter().map(|(n, t)| (n, (t.filename.clone(), t.width, t.height, t.pixel_data))).collect()).map_err(|e| e.to_string()),
                        c20::Kind::Bch | c20::Kind::BchNew => w.fs.read_bch_textures(&path, localized).map(|m| m.into_iter().map(|(n, t)| (n, (t.filename.clone(), t.width, t.height, t.pixel_data))).collect()).map_err(|e| e.to_string()),
                        c20::Kind::Cgfx => w.fs.read_cgfx_textures(&path, localized).map(|m| m.into_iter().map(|(n, t)| (n, (t.filename.clone(), t.width, t.height, t.pixel_data))).collect()).map_err(|e| e.to_string()),
                        c20::Kind::Tpl => w.fs.read_tpl_textures(&path, localized).map(|v| v.into_iter().enumerate().map(|(i, t)| (format!("#{}", i), (t.filename.clone(), t.width, t.height, t.pixel_data))).collect()).map_err(|e| e.to_string()),
                    });
                    match (r, &raw_expect) {
                        (None, _) => ok = false,
                        (Some(Ok(_)), Some(Err(()))) => {
                            c.fail("typed", "read_textures_should_fail", ctxs("returned Ok but the byte-level read must fail", w));
                            ok = false;
                        }
                        (Some(r), Some(Ok(raw))) => {
                            // byte-level read composed with the stand-alone reader
                            let direct = monitor_guard(|| direct_textures(k, raw));
                            match (direct, r) {
                                (Some(Ok(v)), Ok(got)) => {
                                    c.sit("read_textures_conforming");
                                    let exp: TexMap = if k == c20::Kind::Tpl { v.into_iter().enumerate().map(|(i, t)| (format!("#{}", i), (t.filename.clone(), t.width, t.height, t.pixel_data))).collect() } else { to_map(v) };
                                    if got != exp {
                                        c.fail("typed", "read_textures_content", ctxs(&format!("textures differ from the stand-alone reader applied to read(p): {:?} vs {:?}", got.keys().collect::<Vec<_>>(), exp.keys().collect::<Vec<_>>()), w));
                                        ok = false;
                                    }
                                }
                                (Some(Ok(v)), Err(e)) => {
                                    c.fail("typed", "read_textures_err", ctxs(&format!("returned Err({}) although the stand-alone reader accepts read(p) ({} textures)", e, v.len()), w));
                                    ok = false;
                                }
                                (Some(Err(_)), Ok(got)) => {
                                    c.fail("typed", "read_textures_should_fail", ctxs(&format!("returned Ok({} textures) although the stand-alone reader rejects read(p)", got.len()), w));
                                    ok = false;
                                }
                                _ => {}
                            }
                        }
                        _ => {}
                    }
                }
                _ => unreachable!(),
            }
        }
        FOp::Exists(..) | FOp::FileExists(..) | FOp::DirExists(..) => {
            let r = c.lib(&what, || match op {
                FOp::Exists(..) => w.fs.exists(&path, localized),
                FOp::FileExists(..) => w.fs.file_exists(&path, localized),
                _ => w.fs.directory_exists(&path, localized),
            }
            .map_err(|e| e.to_string()));
            let exp: Result<bool, ()> = match &ap {
                None => Err(()),
                Some(ap) => Ok(w.layers.iter().any(|t| match (op, lookup(t, ap)) {
                    (FOp::Exists(..), Some(_)) => true,
                    (FOp::FileExists(..), Some(Node::File(_))) => true,
                    (FOp::DirExists(..), Some(Node::Dir)) => true,
                    _ => false,
                })),
            };
            match (r, exp) {
                (None, _) => ok = false,
                (Some(Ok(g)), Ok(e)) if g != e => {
                    c.fail("existence", "existence_wrong", ctxs(&format!("returned {}, a top-down search of the layers gives {}", g, e), w));
                    ok = false;
                }
                (Some(Ok(g)), Err(())) => {
                    c.fail("existence", "unsupported_pair_accepted", ctxs(&format!("returned Ok({}) for an unsupported game/language pair", g), w));
                    ok = false;
                }
                (Some(Err(e)), Ok(_)) => {
                    c.fail("existence", "existence_err", ctxs(&format!("returned Err({})", e), w));
                    ok = false;
                }
                _ => {}
            }
        }
        FOp::Resolve(..) => {
            let r = c.lib(&what, || w.fs.resolve(&path, localized));
            let exp: Option<PathBuf> = ap.as_ref().and_then(|ap| (0..w.layers.len()).rev().find(|i| lookup(&w.layers[*i], ap).is_some()).map(|i| w.roots[i].join(ap)));
            match r {
                None => ok = false,
                Some(g) => {
                    if g != exp {
                        c.fail("resolve", "resolve_wrong", ctxs(&format!("returned {:?}, expected {:?}", g, exp), w));
                        ok = false;
                    }
                }
            }
        }
        FOp::CreateDir(..) => {
            let r = c.lib(&what, || w.fs.create_dir(&path, localized).map_err(|e| e.to_string()));
            let top = &before[w.top()];
            let exp_ok = match &ap {
                None => false,
                Some(ap) => {
                    let key = ap.trim_end_matches('/');
                    let comps: Vec<&str> = key.split('/').collect();
                    !(1..=comps.len()).any(|i| matches!(top.get(&comps[..i].join("/")), Some(Node::File(_))))
                }
            };
            match r {
                None => ok = false,
                Some(Ok(())) if !exp_ok => {
                    c.fail("create_dir", "create_dir_should_fail", ctxs("returned Ok although a file is in the way in the top layer / the pair is unsupported", w));
                    ok = false;
                }
                Some(Err(e)) if exp_ok => {
                    c.fail("create_dir", "create_dir_err", ctxs(&format!("returned Err({})", e), w));
                    ok = false;
                }
                Some(Ok(())) => {
                    let mut t = top.clone();
                    let key = ap.as_ref().unwrap().trim_end_matches('/').to_string();
                    if !key.is_empty() {
                        add_parents(&mut t, &key);
                        t.entry(key).or_insert(Node::Dir);
                    }
                    top_expected = Some(t);
                }
                _ => {}
            }
        }
        FOp::Write(_, _, _) | FOp::WriteArchive(_, _, _) | FOp::WriteText(_, _, _) => {
            // existence queries right before the write (answers are checked by the dedicated ops;
            // here they only give a stateful implementation the chance to remember a miss)
            let mut parents: Vec<String> = Vec::new();
            if let Some(ap) = &ap {
                let comps: Vec<&str> = ap.trim_end_matches('/').split('/').collect();
                for i in 1..comps.len() {
                    parents.push(comps[..i].join("/"));
                }
            }
            let _ = c.lib("exists before write", || {
                let _ = w.fs.exists(&path, localized);
                let _ = w.fs.file_exists(&path, localized);
                let _ = w.fs.resolve(&path, localized);
                for d in &parents {
                    let _ = w.fs.exists(d, false);
                    let _ = w.fs.directory_exists(d, false);
                    let _ = w.fs.resolve(d, false);
                }
            });
            // the bytes the helper must hand to the byte-level write
            let (r, logical): (Option<Result<(), String>>, Option<Vec<u8>>) = match op {
                FOp::Write(_, payload, _) => {
                    let p = payload.clone();
                    (c.lib(&what, || w.fs.write(&path, &p, localized).map_err(|e| e.to_string())), Some(p))
                }
                FOp::WriteArchive(_, m, _) => {
                    let a = archive::build_real_plain(m).expect("build archive");
                    let img = image::write_canonical(m, None);
                    (c.lib(&what, || w.fs.write_archive(&path, &a, localized).map_err(|e| e.to_string())), Some(img))
                }
                FOp::WriteText(_, entries, _) => {
                    let fmt = if w.cfg.unicode { TextArchiveFormat::Unicode } else { TextArchiveFormat::ShiftJIS };
                    let mut t = TextArchive::new(fmt, endian(w.cfg.be));
                    t.set_title("T".to_string());
                    for (k, v) in entries {
                        t.set_message(k, v);
                    }
                    // expected bytes: whatever the stand-alone serializer gives (C06 owns its correctness)
                    let img = t.serialize().ok();
                    (c.lib(&what, || w.fs.write_text_archive(&path, &t, localized).map_err(|e| e.to_string())), img)
                }
                _ => unreachable!(),
            };
            let top = &before[w.top()];
            let exp_ok = match &ap {
                None => false,
                Some(ap) => {
                    if ap.ends_with('/') {
                        false
                    } else {
                        let comps: Vec<&str> = ap.split('/').collect();
                        let blocked = (1..comps.len()).any(|i| matches!(top.get(&comps[..i].join("/")), Some(Node::File(_))));
                        !blocked && !matches!(top.get(ap.as_str()), Some(Node::Dir))
                    }
                }
            };
            match r {
                None => ok = false,
                Some(Ok(())) if !exp_ok => {
                    c.fail("write", "write_should_fail", ctxs("returned Ok although the target cannot be written in the top layer / the pair is unsupported", w));
                    ok = false;
                }
                Some(Err(e)) if exp_ok => {
                    // The only legitimate refusals: a payload the 24-bit length field of the game's
                    // compressed format cannot describe, and trouble of the machine (disk full).
                    let too_big = loc::compressed_suffix(&w.cfg, &path) && logical.as_ref().map(|b| b.len() >= (1 << 24)).unwrap_or(false);
                    if too_big {
                        c.outcome("write_refused_payload_of_16MiB_or_more_under_compressed_suffix");
                    } else if e.contains("No space left") || e.contains("Too many open files") {
                        c.st.harness_errors.push(format!("environment: {}", e));
                        ok = false;
                    } else {
                        c.fail("write", "write_failed_on_writable_target", ctxs(&format!("returned Err({}) although the target is writable in the top layer and the payload is legal", e), w));
                        ok = false;
                    }
                }
                Some(Ok(())) => {
                    let ap = ap.clone().unwrap();
                    let compressed = loc::compressed_suffix(&w.cfg, &path);
                    if (0..w.top()).any(|i| matches!(lookup(&w.layers[i], &ap), Some(Node::File(_)))) {
                        c.sit("write_shadows_lower_file");
                    }
                    // what is on disk now?
                    let stored = std::fs::read(w.roots[w.top()].join(&ap)).ok();
                    match (&stored, &logical) {
                        (None, _) => {
                            c.fail("write", "write_missing_file", ctxs(&format!("returned Ok but top-layer file {:?} does not exist", ap), w));
                            ok = false;
                        }
                        (Some(st), Some(lg)) => {
                            if compressed {
                                c.sit(if w.cfg.lz13 { "write_compressed_lz13" } else { "write_compressed_lz10" });
                                let inner: &[u8] = if w.cfg.lz13 {
                                    if st.len() >= 4 && st[0] == 0x13 {
                                        &st[4..]
                                    } else {
                                        &[]
                                    }
                                } else {
                                    st
                                };
                                let x = lz::expand(inner, lg.len() + 1);
                                let want = if w.cfg.lz13 { 0x11 } else { 0x10 };
                                if x.class != Class::Conforming || x.kind != want || &x.out != lg {
                                    c.fail(
                                        "write",
                                        "write_stored_stream_invalid",
                                        ctxs(&format!("file stored under a compressed suffix is not a valid {} stream expanding to the written bytes (class {}, kind {:#x}): {}", if w.cfg.lz13 { "0x13-wrapped LZ11" } else { "LZ10" }, x.class.name(), x.kind, hex_short(st, 64)), w),
                                    );
                                    ok = false;
                                }
                            } else if st != lg {
                                c.fail("write", "write_stored_bytes", ctxs(&format!("stored bytes differ from the written bytes ({} vs {} bytes)", st.len(), lg.len()), w));
                                ok = false;
                            }
                            let mut t = top.clone();
                            add_parents(&mut t, &ap);
                            t.insert(ap.clone(), Node::File(st.clone()));
                            top_expected = Some(t);
                            // the existence queries and resolve must see the new file and its parents
                            if ok {
                                let top_root = w.roots[w.top()].clone();
                                let probes = c.lib("existence queries after write", || {
                                    let mut bad: Vec<String> = Vec::new();
                                    if w.fs.file_exists(&path, localized).ok() != Some(true) {
                                        bad.push(format!("file_exists({:?}, {}) is not true", path, localized));
                                    }
                                    if w.fs.exists(&path, localized).ok() != Some(true) {
                                        bad.push(format!("exists({:?}, {}) is not true", path, localized));
                                    }
                                    if w.fs.resolve(&path, localized) != Some(top_root.join(&ap)) {
                                        bad.push(format!("resolve({:?}, {}) = {:?}, expected the top-layer file", path, localized, w.fs.resolve(&path, localized)));
                                    }
                                    for d in &parents {
                                        if w.fs.directory_exists(d, false).ok() != Some(true) {
                                            bad.push(format!("directory_exists({:?}) is not true", d));
                                        }
                                        if w.fs.exists(d, false).ok() != Some(true) {
                                            bad.push(format!("exists({:?}) is not true", d));
                                        }
                                    }
                                    bad
                                });
                                match probes {
                                    Some(bad) if !bad.is_empty() => {
                                        c.fail("existence_after_write", "existence_after_write", ctxs(&format!("after the write: {}", bad.join("; ")), w));
                                        ok = false;
                                    }
                                    None => ok = false,
                                    _ => {}
                                }
                            }
                            // read-after-write with the same localisation choice
                            if ok {
                                match c.lib("read after write", || w.fs.read(&path, localized).map_err(|e| e.to_string())) {
                                    Some(Ok(back)) => {
                                        if &back != lg {
                                            c.fail("read_after_write", "read_after_write", ctxs(&format!("read after write returned {} bytes ({}), written were {} bytes ({})", back.len(), hex_short(&back, 40), lg.len(), hex_short(lg, 40)), w));
                                            ok = false;
                                        }
                                    }
                                    Some(Err(e)) => {
                                        c.fail("read_after_write", "read_after_write_err", ctxs(&format!("read after write failed: {}", e), w));
                                        ok = false;
                                    }
                                    None => ok = false,
                                }
                            }
                        }
                        (Some(st), None) => {
                            let mut t = top.clone();
                            add_parents(&mut t, &ap);
                            t.insert(ap.clone(), Node::File(st.clone()));
                            top_expected = Some(t);
                        }
                    }
                }
                _ => {}
            }
        }
        FOp::List(_, pat, _) => {
            let r = c.lib(&what, || w.fs.list(&path, pat.as_deref(), localized).map_err(|e| e.to_string()));
            match (r, &ap) {
                (None, _) => ok = false,
                (Some(Ok(g)), None) => {
                    c.fail("listing", "unsupported_pair_accepted", ctxs(&format!("returned Ok({:?}) for an unsupported game/language pair", g), w));
                    ok = false;
                }
                (Some(Err(_)), None) => {}
                (Some(Err(e)), Some(_)) => {
                    c.fail("listing", "list_err", ctxs(&format!("returned Err({})", e), w));
                    ok = false;
                }
                (Some(Ok(g)), Some(ap)) => {
                    let exp = expected_list(w, ap, pat.as_deref());
                    let layers_contributing = w.layers.iter().filter(|t| exp.iter().any(|p| t.contains_key(p))).count();
                    let dup = exp.iter().any(|p| w.layers.iter().filter(|t| t.contains_key(p)).count() >= 2);
                    if exp.len() >= 2 && layers_contributing >= 2 && dup {
                        c.sit("listing_union_with_duplicates");
                        let mut h = fnv(what.as_bytes());
                        for p in &exp {
                            h = fnv_add(h, p.as_bytes());
                        }
                        c.nontrivial(h ^ 0x13);
                    }
                    if exp.is_empty() && w.layers.iter().all(|t| lookup(t, ap).is_none()) {
                        c.sit("listing_missing_directory");
                    }
                    if ap.trim_end_matches('/').is_empty() {
                        c.sit("listing_root");
                    }
                    if g != exp {
                        let missing: Vec<&String> = exp.iter().filter(|p| !g.contains(p)).collect();
                        let extra: Vec<&String> = g.iter().filter(|p| !exp.contains(p)).collect();
                        let why = if missing.is_empty() && extra.is_empty() { "same entries but not in ascending order / with duplicates".to_string() } else { format!("missing {:?}, unexpected {:?}", missing, extra) };
                        c.fail("listing", "list_wrong", ctxs(&format!("returned {:?}, a walk of the layers gives {:?} ({})", g, exp, why), w));
                        ok = false;
                    } else {
                        for p in g.iter().take(12) {
                            match c.lib("exists(listed path)", || w.fs.exists(p, false).map_err(|e| e.to_string())) {
                                Some(Ok(true)) => {}
                                other => {
                                    c.fail("listing", "listed_path_does_not_exist", ctxs(&format!("listed path {:?} but exists() says {:?}", p, other), w));
                                    ok = false;
                                    break;
                                }
                            }
                        }
                        if localized && ok {
                            // a localized listing equals the unlocalized listing of the localized directory
                            match c.lib("list(localized dir, unlocalized)", || w.fs.list(ap, pat.as_deref(), false).map_err(|e| e.to_string())) {
                                Some(Ok(g2)) if g2 == g => c.sit("localized_listing_equals_unlocalized"),
                                other => {
                                    c.fail("listing", "localized_listing_differs", ctxs(&format!("unlocalized listing of {:?} gives {:?}", ap, other), w));
                                    ok = false;
                                }
                            }
                        }
                    }
                }
            }
        }
        FOp::Subdirs(..) => {
            let r = c.lib(&what, || w.fs.subdirectories(&path, localized).map_err(|e| e.to_string()));
            match (r, &ap) {
                (None, _) => ok = false,
                (Some(Ok(g)), None) => {
                    c.fail("listing", "unsupported_pair_accepted", ctxs(&format!("returned Ok({:?}) for an unsupported game/language pair", g), w));
                    ok = false;
                }
                (Some(Err(_)), None) => {}
                (Some(Err(e)), Some(_)) => {
                    c.fail("listing", "subdirs_err", ctxs(&format!("returned Err({})", e), w));
                    ok = false;
                }
                (Some(Ok(g)), Some(ap)) => {
                    let exp = expected_subdirs(w, ap);
                    if exp.len() >= 2 {
                        c.sit("subdirectories_several");
                    }
                    if g != exp {
                        c.fail("listing", "subdirs_wrong", ctxs(&format!("returned {:?}, the immediate child directories present in any layer are {:?}", g, exp), w));
                        ok = false;
                    }
                }
            }
        }
    }
    marker("end", c.idx, w.top_dir_index());
    // ------------------------------------------------------------------ M-fs: on-disk effects
    let after = match w.snapshot() {
        Ok(s) => s,
        Err(e) => {
            c.st.harness_errors.push(e);
            return false;
        }
    };
    for i in 0..w.top() {
        if w.roots[i] == w.roots[w.top()] {
            continue; // the same directory is also the top layer
        }
        if after[i] != before[i] {
            let changed: Vec<String> = after[i].iter().filter(|(p, n)| before[i].get(*p) != Some(n)).map(|(p, _)| p.clone()).chain(before[i].keys().filter(|p| !after[i].contains_key(*p)).map(|p| format!("-{}", p))).collect();
            c.fail("lower_layer_modified", "lower_layer_modified", ctxs(&format!("lower layer L{} changed on disk: {:?}", i, changed), w));
            ok = false;
        }
    }
    let is_write = matches!(op, FOp::Write(..) | FOp::WriteArchive(..) | FOp::WriteText(..) | FOp::CreateDir(..));
    if let Some(exp) = &top_expected {
        let top = w.top();
        // A write / create_dir that returned an error may have created parent directories in the
        // top layer before failing; the statement does not forbid that. Files must be untouched.
        let lenient = is_write && exp == &before[top];
        let same = if lenient {
            exp.iter().all(|(p, n)| after[top].get(p) == Some(n)) && after[top].iter().all(|(p, n)| exp.contains_key(p) || *n == Node::Dir)
        } else {
            &after[top] == exp
        };
        if !same {
            let changed: Vec<String> = after[top].iter().filter(|(p, n)| exp.get(*p) != Some(n)).map(|(p, _)| p.clone()).chain(exp.keys().filter(|p| !after[top].contains_key(*p)).map(|p| format!("-{}", p))).collect();
            c.fail(
                if is_write { "top_layer_wrong" } else { "read_only_call_modified_disk" },
                if is_write { "top_layer_wrong" } else { "read_only_call_modified_disk" },
                ctxs(&format!("top layer on disk differs from the expected tree at {:?}", changed), w),
            );
            ok = false;
        }
    }
    w.layers = after;
    ok
}

fn rel(p: String) -> String {
    let t = p.trim_start_matches('/').to_string();
    if t.is_empty() {
        "m".to_string()
    } else {
        t
    }
}

pub fn gen_op(rng: &mut Rng, w: &World, focus: Focus) -> FOp {
    match gen_op_raw(rng, w, focus) {
        FOp::Write(p, b, l) => FOp::Write(rel(p), b, l),
        FOp::Read(p, l) => FOp::Read(rel(p), l),
        FOp::FileExists(p, l) => FOp::FileExists(rel(p), l),
        FOp::CreateDir(p, l) => FOp::CreateDir(rel(p), l),
        FOp::WriteArchive(p, m, l) => FOp::WriteArchive(rel(p), m, l),
        FOp::ReadArchive(p, l) => FOp::ReadArchive(rel(p), l),
        FOp::WriteText(p, e, l) => FOp::WriteText(rel(p), e, l),
        FOp::ReadText(p, l) => FOp::ReadText(rel(p), l),
        FOp::ReadPack(p, l) => FOp::ReadPack(rel(p), l),
        FOp::ReadArc(p, l) => FOp::ReadArc(rel(p), l),
        FOp::ReadTex(p, l) => FOp::ReadTex(rel(p), l),
        FOp::Exists(p, l) => FOp::Exists(p.trim_start_matches('/').to_string(), l),
        FOp::DirExists(p, l) => FOp::DirExists(p.trim_start_matches('/').to_string(), l),
        FOp::Resolve(p, l) => FOp::Resolve(p.trim_start_matches('/').to_string(), l),
        FOp::List(p, g, l) => FOp::List(p.trim_start_matches('/').to_string(), g, l),
        FOp::Subdirs(p, l) => FOp::Subdirs(p.trim_start_matches('/').to_string(), l),
    }
}

fn gen_op_raw(rng: &mut Rng, w: &World, focus: Focus) -> FOp {
    let localized = match focus {
        Focus::Localized => rng.chance(4, 5),
        _ => rng.chance(1, 3),
    };
    // prefer paths that exist somewhere (possibly in their localized location)
    let existing: Vec<String> = w.layers.iter().flat_map(|t| t.keys().cloned()).collect();
    let mut path = if !existing.is_empty() && rng.chance(3, 5) { rng.pick(&existing).clone() } else { gen_path(rng) };
    if localized && rng.chance(2, 3) {
        // undo the marker so that the localized call addresses an existing location
        if let loc::Marker::Dir(d) = loc::marker(w.loc, w.lang) {
            path = path.replace(&format!("/{}/", d), "/");
        }
        if let loc::Marker::Prefix(x) = loc::marker(w.loc, w.lang) {
            if let Some(i) = path.rfind('/') {
                if path[i + 1..].starts_with(x) {
                    path = format!("{}/{}", &path[..i], &path[i + 1 + x.len()..]);
                }
            }
        }
    }
    let dir = {
        let dirs: Vec<String> = w.layers.iter().flat_map(|t| t.iter().filter(|(_, n)| **n == Node::Dir).map(|(p, _)| p.clone())).collect();
        match rng.below(6) {
            0 => String::new(),
            1 => gen_dir(rng),
            2 => path.clone(),
            _ if !dirs.is_empty() => {
                let d = rng.pick(&dirs).clone();
                if rng.chance(1, 3) {
                    format!("{}/", d)
                } else {
                    d
                }
            }
            _ => gen_dir(rng),
        }
    };
    let pat = match rng.below(8) {
        0 | 1 | 2 => None,
        3 => Some("*".to_string()),
        4 => Some(format!("*.{}", rng.pick(&["bin", "txt", "lz"]))),
        5 => Some(format!("**/*.{}", rng.pick(&["bin", "txt", "lz"]))),
        6 => Some(format!("{}.*", rng.pick(&["GameData", "one", "t"]))),
        _ => Some(format!("{}/*", rng.pick(&DIRS))),
    };
    let list_weight = if focus == Focus::Listing { 10 } else { 3 };
    let k = rng.below(20 + list_weight);
    if k >= 20 {
        return if rng.chance(2, 3) { FOp::List(dir, pat, localized) } else { FOp::Subdirs(dir, localized) };
    }
    match k {
        0 | 1 | 2 | 3 => FOp::Write(path, payload(rng), localized),
        4 | 5 | 6 | 7 => FOp::Read(path, localized),
        8 => FOp::Exists(if rng.bool() { path } else { dir }, localized),
        9 => FOp::FileExists(path, localized),
        10 => FOp::DirExists(if rng.bool() { path } else { dir }, localized),
        11 => FOp::Resolve(if rng.bool() { path } else { dir }, localized),
        12 => FOp::CreateDir(if rng.chance(1, 3) { path } else { format!("{}{}", dir.trim_end_matches('/'), if rng.bool() { "/new" } else { "" }) }, localized),
        13 => {
            let m = gen_archive_content(rng, w.cfg.be);
            let p = if rng.bool() { path } else { format!("{}{}", gen_dir(rng), if w.cfg.lz13 { "/arch.bin.lz" } else { "/arch.cmp" }) };
            FOp::WriteArchive(p.trim_start_matches('/').to_string(), m, localized)
        }
        14 | 15 => FOp::ReadArchive(path, localized),
        16 => {
            let n = rng.range(0, 4);
            let entries: Vec<(String, String)> = (0..n).map(|i| (format!("MID_{}", i), if w.cfg.unicode { format!("msg{}\u{3042}", i) } else { format!("msg{}", i) })).collect();
            let p = if rng.bool() { path } else { format!("m/text{}", if w.cfg.lz13 { ".bin.lz" } else { ".cms" }) };
            FOp::WriteText(p, entries, localized)
        }
        17 => FOp::ReadText(path, localized),
        18 => FOp::ReadPack(path, localized),
        _ => {
            if tex_kind_of(&path).is_some() || rng.chance(1, 3) {
                let texp: Vec<String> = existing.iter().filter(|p| tex_kind_of(p).is_some()).cloned().collect();
                let p = if tex_kind_of(&path).is_some() || texp.is_empty() { path } else { rng.pick(&texp).clone() };
                if tex_kind_of(&p).is_some() {
                    FOp::ReadTex(p, localized)
                } else {
                    FOp::ReadArc(p, localized)
                }
            } else {
                FOp::ReadArc(path, localized)
            }
        }
    }
}

/// One random history on a fresh set of layers.
pub fn run_history(c: &mut Case, focus: Focus) {
    let mut rng = c.rng.clone();
    let scratch = scratch_dir();
    let mut w = match World::new(c, &scratch, &mut rng, focus) {
        Ok(w) => w,
        Err(e) => {
            if e.starts_with("LayeredFilesystem::new failed") {
                c.fail("new", "new_failed", e);
            } else if !e.starts_with("panic") {
                c.st.harness_errors.push(e);
            }
            return;
        }
    };
    c.sit(&format!("game_{}", game_name(w.game)));
    if w.layers.len() >= 3 {
        c.sit("three_or_more_layers");
    }
    let n = rng.range(10, 60);
    let start = w.describe();
    let mut hist: Vec<String> = Vec::new();
    let mut h = fnv(start.as_bytes());
    let mut wrote_shadow_then_read = false;
    let mut shadow_paths: Vec<String> = Vec::new();
    for _ in 0..n {
        let op = gen_op(&mut rng, &w, focus);
        let s = op.short();
        h = fnv_add(h, s.as_bytes());
        if hist.len() < 10 {
            hist.push(s);
        }
        let shadows_before = c.st.situations.get("write_shadows_lower_file").copied().unwrap_or(0);
        c.eval(1);
        if !exec(c, &mut w, &op) {
            break;
        }
        if c.st.situations.get("write_shadows_lower_file").copied().unwrap_or(0) > shadows_before {
            if let FOp::Write(p, _, _) = &op {
                shadow_paths.push(p.clone());
            }
        }
        if let FOp::Read(p, _) = &op {
            if shadow_paths.contains(p) {
                wrote_shadow_then_read = true;
            }
        }
    }
    if wrote_shadow_then_read {
        c.nontrivial(h);
        c.sit("write_shadow_then_later_read");
    }
    c.sample(&format!("history_{}", game_name(w.game)), || {
        J::obj(vec![
            ("start", J::s(&start)),
            ("ops_total", J::U(n as u64)),
            ("first_ops", J::A(hist.iter().map(J::s).collect())),
            ("observed", J::s("every call compared with a top-down search of the model; every layer directory snapshotted before/after each call: lower layers bit-identical, top layer equal to the model")),
        ])
    });
    w.cleanup();
}

use std::sync::atomic::{AtomicBool, Ordering};
use std::sync::OnceLock;
static MARKERS: AtomicBool = AtomicBool::new(false);
/// M-sys: when enabled (strace lane), every filesystem operation is bracketed by two marker
/// syscalls (`stat` of a path that does not exist) that the offline strace checker keys on.
pub fn enable_markers() {
    MARKERS.store(true, Ordering::Relaxed);
}
fn marker(kind: &str, case: u64, top: usize) {
    if MARKERS.load(Ordering::Relaxed) {
        let _ = std::fs::metadata(format!("/VERIF_MARK/{}/{}/{}", kind, case, top));
    }
}
static SCRATCH: OnceLock<PathBuf> = OnceLock::new();
pub fn set_scratch(p: PathBuf) {
    let _ = SCRATCH.set(p);
}
pub fn scratch_dir() -> PathBuf {
    SCRATCH.get().cloned().unwrap_or_else(|| PathBuf::from("/verif/.scratch/default"))
}
