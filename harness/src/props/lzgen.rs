//! Input generators shared by the compression properties C08, C09, C10.
use crate::prng::Rng;

/// Enumerate all strings over an alphabet of `k` symbols with length in 0..=maxlen, in chunks.
/// Calls `f(chunk_index, &inputs)`; chunking keeps the number of harness cases moderate.
pub fn small_alphabet_chunks(k: usize, maxlen: usize, chunk: usize, mut f: impl FnMut(usize, &[Vec<u8>])) {
    let mut buf: Vec<Vec<u8>> = Vec::with_capacity(chunk);
    let mut ci = 0;
    for len in 0..=maxlen {
        let total = (k as u64).pow(len as u32);
        for mut x in 0..total {
            let mut s = Vec::with_capacity(len);
            for _ in 0..len {
                s.push((x % k as u64) as u8);
                x /= k as u64;
            }
            buf.push(s);
            if buf.len() == chunk {
                f(ci, &buf);
                ci += 1;
                buf.clear();
            }
        }
    }
    if !buf.is_empty() {
        f(ci, &buf);
    }
}

pub fn periodic(pattern: &[u8], n: usize) -> Vec<u8> {
    (0..n).map(|i| pattern[i % pattern.len()]).collect()
}

const WORDS: &[&str] = &[
    "the ", "fire ", "emblem ", "MID_", "PID_", "JID_", "sword", "lance", "axe", "\n", "\0\0\0\0", "0x00", "Name", "Help", " of ", "ing ", "tion",
];

/// A structured input and a short description of its family.
pub fn gen_input(rng: &mut Rng, max_len: usize) -> (Vec<u8>, String) {
    let n = match rng.below(8) {
        0 => rng.range(0, 40),
        1 => {
            // around token-group and match-length boundaries
            let base = *rng.pick(&[8usize, 16, 18, 19, 24, 36, 64, 144, 272, 273, 288, 4096, 4097, 4113]);
            (base + rng.range(0, 3)).saturating_sub(rng.range(0, 3))
        }
        _ => rng.skewed(max_len),
    }
    .min(max_len);
    match rng.below(9) {
        0 => {
            // runs
            let mut v = Vec::with_capacity(n);
            let syms = rng.range(1, 4);
            while v.len() < n {
                let b = rng.below(syms) as u8 * 37;
                let l = match rng.below(5) {
                    0 => rng.range(1, 3),
                    1 => rng.range(15, 20),
                    2 => rng.range(270, 276),
                    3 => rng.range(4090, 4100),
                    _ => rng.range(1, 64),
                };
                for _ in 0..l {
                    if v.len() < n {
                        v.push(b);
                    }
                }
            }
            (v, "runs".into())
        }
        1 | 2 => {
            let p = if rng.bool() { rng.range(1, 20) } else { rng.range(4090, 4100) };
            let pat = rng.bytes(p);
            (periodic(&pat, n), format!("periodic(p={})", p))
        }
        3 => {
            let p1 = rng.range(1, 12);
            let p2 = rng.range(2, 40);
            let a = rng.bytes(p1);
            let b = rng.bytes(p2);
            ((0..n).map(|i| if i % 2 == 0 { a[(i / 2) % p1] } else { b[(i / 2) % p2] }).collect(), format!("interleaved(p={},{})", p1, p2))
        }
        4 => {
            // copy-with-noise of an earlier window at distance d
            let d = *rng.pick(&[1usize, 2, 3, 17, 18, 19, 255, 4095, 4096, 4097]);
            let noise = rng.range(0, 40);
            let mut v: Vec<u8> = Vec::with_capacity(n);
            for i in 0..n {
                if i < d || rng.below(1000) < noise {
                    v.push(rng.u8());
                } else {
                    v.push(v[i - d]);
                }
            }
            (v, format!("copy_with_noise(d={},noise={}/1000)", d, noise))
        }
        5 => (rng.bytes(n.min(4096)), "incompressible".into()),
        6 => {
            let mut v = Vec::new();
            while v.len() < n {
                v.extend_from_slice(rng.pick(WORDS).as_bytes());
            }
            v.truncate(n);
            (v, "text_like".into())
        }
        7 => {
            // low-entropy random: many short matches
            let k = rng.range(2, 4);
            ((0..n).map(|_| rng.below(k) as u8).collect(), format!("low_entropy(k={})", k))
        }
        _ => {
            // long matches forcing each LZ11 length form, then a tail
            let ul = rng.range(1, 6);
            let unit = rng.bytes(ul);
            let l = *rng.pick(&[16usize, 17, 272, 273, 4095, 4096, 4097, 5000]);
            let mut v = periodic(&unit, unit.len() + l);
            let tl = rng.range(0, 5);
            v.extend(rng.bytes(tl));
            v.truncate(max_len.max(1));
            (v, format!("forced_match(len={})", l))
        }
    }
}

/// De Bruijn-like sequence B(2, k) as bytes 0/1 — no repeated k-grams: worst case for LZ
pub fn de_bruijn(k: usize) -> Vec<u8> {
    fn db(t: usize, p: usize, k: usize, a: &mut Vec<u8>, seq: &mut Vec<u8>) {
        if t > k {
            if k % p == 0 {
                seq.extend_from_slice(&a[1..=p]);
            }
        } else {
            a[t] = a[t - p];
            db(t + 1, p, k, a, seq);
            for j in a[t - p] + 1..2 {
                a[t] = j;
                db(t + 1, t, k, a, seq);
            }
        }
    }
    let mut a = vec![0u8; k + 1];
    let mut seq = Vec::new();
    db(1, 1, k, &mut a, &mut seq);
    seq
}
