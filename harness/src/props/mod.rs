use crate::ctx::Ctx;
use std::path::Path;

pub mod c01;
pub mod c02;
pub mod c03;
pub mod c04;
pub mod c06;
pub mod c07;
pub mod calibrate;

pub fn run(prop: &str, cx: &mut Ctx) -> bool {
    match prop {
        "calibrate" => match calibrate::run(&cx.a.repo.clone()) {
            Ok(lines) => {
                for l in lines {
                    println!("calibration ok: {}", l);
                }
            }
            Err(e) => {
                println!("CALIBRATION FAILED: {}", e);
                std::process::exit(4);
            }
        },
        "C01" => c01::run(cx),
        "C02" => c02::run(cx),
        "C03" => c03::run(cx),
        "C04" => c04::run(cx),
        "C06" => c06::run(cx),
        "C07" => c07::run(cx),
        _ => return false,
    }
    true
}

/// further calibrations, added as the reference oracles grow
pub fn calibrate_more(_repo: &Path, _done: &mut Vec<String>) -> Result<(), String> {
    Ok(())
}
