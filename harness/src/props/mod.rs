use crate::ctx::Ctx;
use std::path::Path;

pub mod c01;
pub mod c02;
pub mod c03;
pub mod c04;
pub mod c05;
pub mod c06;
pub mod c07;
pub mod c08;
pub mod c09;
pub mod c10;
pub mod c11;
pub mod c12;
pub mod c13;
pub mod c14;
pub mod fsx;
pub mod c15;
pub mod c16;
pub mod c17;
pub mod c18;
pub mod c19;
pub mod c20;
pub mod lzgen;
pub mod poison;
pub mod calibrate;

pub fn run(prop: &str, cx: &mut Ctx) -> bool {
    match prop {
        "calibrate" => match calibrate::run(&cx.a.repo.clone()) {
            Ok(lines) => {
                for l in lines {
                    println!("calibration ok: {}", l);
                }
            }
            Err(e) => {
                println!("CALIBRATION FAILED: {}", e);
                std::process::exit(4);
            }
        },
        "C01" => c01::run(cx),
        "C02" => c02::run(cx),
        "C03" => c03::run(cx),
        "C04" => c04::run(cx),
        "C05" => c05::run(cx),
        "C06" => c06::run(cx),
        "C07" => c07::run(cx),
        "C08" => c08::run(cx),
        "C09" => c09::run(cx),
        "C10" => c10::run(cx),
        "C11" => c11::run(cx),
        "C12" => {
            fsx::set_scratch(cx.a.scratch.clone());
            if cx.a.lane == "strace" {
                fsx::enable_markers();
            }
            c12::run(cx)
        }
        "C13" => {
            fsx::set_scratch(cx.a.scratch.clone());
            c13::run(cx)
        }
        "C14" => {
            fsx::set_scratch(cx.a.scratch.clone());
            c14::run(cx)
        }
        "C15" => c15::run(cx),
        "C16" => c16::run(cx),
        "C17" => c17::run(cx),
        "C18" => c18::run(cx),
        "C19" => c19::run(cx),
        "C20" => c20::run(cx),
        _ => return false,
    }
    true
}

/// further calibrations, added as the reference oracles grow
pub fn calibrate_more(repo: &Path, done: &mut Vec<String>) -> Result<(), String> {
    use crate::refs::lz;
    let rd = |n: &str| std::fs::read(repo.join("resources/test").join(n)).ok();
    if let (Some(lzf), Some(plain)) = (rd("LZ13Test.bin.lz"), rd("LZ13Test.bin")) {
        if lzf.len() < 8 || lzf[0] != 0x13 {
            return Err("golden LZ13Test.bin.lz does not start with a 0x13 wrapper".into());
        }
        let x = lz::expand(&lzf[4..], plain.len() + 1);
        if x.class != lz::Class::Conforming || x.out != plain {
            return Err(format!("reference LZ11 expander does not expand golden LZ13Test.bin.lz to LZ13Test.bin ({:?})", x.class));
        }
        // and the reference encoder re-encodes the parsed token list to the same bytes
        let re = lz::encode(lz::Kind::Lz11, &x.tokens, plain.len());
        if re != lzf[4..] {
            return Err("reference LZ11 encoder does not reproduce the golden stream from its own token list".into());
        }
        done.push("LZ11 expander/encoder agree with golden LZ13Test.bin.lz".into());
    }
    calibrate_containers(repo, done)
}

pub fn calibrate_containers(_repo: &Path, _done: &mut Vec<String>) -> Result<(), String> {
    Ok(())
}
