//! "Poison" calls: library calls that are expected to FAIL (their result is ignored here - C05 owns
//! totality), issued right before an ordinary case. A library that keeps hidden state across calls
//! (a scratch buffer, a memo, a cache that is only reset on the success path) then shows a
//! history-dependent result in the ordinary case that follows, which every round-trip property
//! forbids. Used by C01, C02, C06, C15, C16, C17, C18.
use crate::ctx::Case;
use crate::refs::archive::RefArchive;
use crate::refs::image;
use indexmap::IndexMap;
use mila::{arc, fe9_arc, BinArchive, Endian, TextArchive, TextArchiveFormat};

pub fn poison(c: &mut Case) {
    c.sit("poisoned_by_failing_calls_first");
    // 1. bin archive whose last label name and last string run to the end of the file
    for be in [false, true] {
        let mut a = RefArchive::new(be);
        a.data = vec![0x11; 8];
        a.text.insert(0, "omega_string".to_string());
        a.labels.insert(4, vec!["junk_label".to_string()]);
        let mut img = image::write_canonical(&a, None);
        img.pop(); // drop the final NUL: the last text is unterminated
        let en = if be { Endian::Big } else { Endian::Little };
        let _ = c.lib("poison: BinArchive::from_bytes (unterminated)", || BinArchive::from_bytes(&crate::monitor::tight(&img), en).is_ok());
        let _ = c.lib("poison: arc::from_bytes (unterminated)", || arc::from_bytes(&crate::monitor::tight(&img)).is_ok());
        let _ = c.lib("poison: TextArchive::from_bytes (unterminated)", || TextArchive::from_bytes(&crate::monitor::tight(&img), TextArchiveFormat::ShiftJIS, en).is_ok());
    }
    // 1b. UTF-16 text archive whose last message runs to the end of the data region (some units
    // already consumed when the reader gives up); a string pointer into such data, too
    if !cfg!(miri) {
        for be in [false, true] {
            let mut a = RefArchive::new(be);
            a.data = vec![b't', 0, 0, 0];
            a.data.extend_from_slice(&[b'l', 0, b'e', 0, b'f', 0, b't', 0, 0x42, 0x30, b'o', 0]);
            a.labels.insert(4, vec!["MID_LEFTOVER".to_string()]);
            let img = image::write_canonical(&a, None);
            let en = if be { Endian::Big } else { Endian::Little };
            let _ = c.lib("poison: TextArchive::from_bytes (UTF-16, unterminated)", || TextArchive::from_bytes(&crate::monitor::tight(&img), TextArchiveFormat::Unicode, en).is_ok());
        }
    }
    // 2. pack archive whose name runs to the end of the buffer
    let mut p = b"pack\0\x01\0\0".to_vec();
    p.extend_from_slice(&[0, 0, 0, 0]);
    p.extend_from_slice(&0x18u32.to_be_bytes());
    p.extend_from_slice(&0x18u32.to_be_bytes());
    p.extend_from_slice(&0u32.to_be_bytes());
    p.extend_from_slice(b"junk_name_without_terminator");
    let _ = c.lib("poison: fe9_arc::parse (unterminated)", || fe9_arc::parse(&crate::monitor::tight(&p)).is_ok());
    // 3. encodes that fail half-way: an encodable prefix followed by a character outside Shift-JIS
    let mut a = BinArchive::new(Endian::Little);
    a.allocate_at_end(8);
    let _ = a.write_string(0, Some("prefix\u{1F600}"));
    let _ = a.write_label(4, "lab\u{1F600}");
    let _ = c.lib("poison: BinArchive::serialize (unencodable)", || a.serialize().is_ok());
    let mut m: IndexMap<String, Vec<u8>> = IndexMap::new();
    m.insert("name\u{1F600}".to_string(), vec![1, 2, 3]);
    let _ = c.lib("poison: fe9_arc::serialize (unencodable)", || fe9_arc::serialize(&m).is_ok());
    let mut t = TextArchive::new(TextArchiveFormat::ShiftJIS, Endian::Big);
    t.set_message("key", "text\u{1F600}");
    let _ = c.lib("poison: TextArchive::serialize (unencodable)", || t.serialize().is_ok());
}

/// poison every `n`-th case (by case index)
pub fn maybe(c: &mut Case, n: u64) {
    if c.idx % n == 0 {
        poison(c);
    }
}
