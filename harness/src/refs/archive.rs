//! RefArchive: small executable model of a bin archive (DESIGN §4.1), plus observation of the
//! real `BinArchive` through its public accessors and through the `verif_snapshot` hook.
use crate::prng::Rng;
use mila::{BinArchive, Endian};
use std::collections::BTreeMap;

#[derive(Clone, PartialEq, Debug, Default)]
pub struct RefArchive {
    pub be: bool,
    pub data: Vec<u8>,
    pub text: BTreeMap<usize, String>,
    pub ptrs: BTreeMap<usize, usize>,
    pub labels: BTreeMap<usize, Vec<String>>,
    /// cell -> pending c-string
    pub cstr: BTreeMap<usize, String>,
}

pub fn endian(be: bool) -> Endian {
    if be {
        Endian::Big
    } else {
        Endian::Little
    }
}

fn in_range(addr: usize, width: usize, size: usize) -> bool {
    width > 0 && (addr as u128) < size as u128 && (addr as u128 + width as u128) <= size as u128
}

impl RefArchive {
    pub fn new(be: bool) -> Self {
        RefArchive {
            be,
            ..Default::default()
        }
    }
    pub fn size(&self) -> usize {
        self.data.len()
    }
    pub fn cell_ok(&self, addr: usize) -> bool {
        in_range(addr, 4, self.size())
    }
    pub fn range_ok(&self, addr: usize, width: usize) -> bool {
        in_range(addr, width, self.size())
    }
    pub fn occupied(&self, cell: usize) -> bool {
        self.text.contains_key(&cell) || self.ptrs.contains_key(&cell) || self.cstr.contains_key(&cell)
    }
    /// drop empty label buckets (Some([]) and None are not distinguished by any property)
    pub fn normalize(&mut self) {
        self.labels.retain(|_, v| !v.is_empty());
    }
    pub fn normalized(&self) -> RefArchive {
        let mut c = self.clone();
        c.normalize();
        c
    }
    pub fn all_labels(&self) -> Vec<(usize, String)> {
        let mut v = Vec::new();
        for (a, b) in &self.labels {
            for l in b {
                v.push((*a, l.clone()));
            }
        }
        v
    }

    // ---- structural operations, semantics as stated by C03 ----

    pub fn allocate_at_end(&mut self, n: usize) {
        self.data.extend(std::iter::repeat(0).take(n));
    }

    pub fn allocate(&mut self, a: usize, n: usize, ge: bool) -> bool {
        if a > self.size() || a % 4 != 0 || n % 4 != 0 {
            return false;
        }
        let zeros = vec![0u8; n];
        self.data.splice(a..a, zeros);
        let mv_loc = |k: usize| if k >= a { k + n } else { k };
        let mv_tgt = |k: usize| if k > a || (k >= a && ge) { k + n } else { k };
        self.text = self.text.iter().map(|(k, v)| (mv_loc(*k), v.clone())).collect();
        self.cstr = self.cstr.iter().map(|(k, v)| (mv_loc(*k), v.clone())).collect();
        self.ptrs = self.ptrs.iter().map(|(k, v)| (mv_loc(*k), mv_tgt(*v))).collect();
        self.labels = self.labels.iter().map(|(k, v)| (mv_tgt(*k), v.clone())).collect();
        true
    }

    pub fn dealloc_ok(&self, a: usize, n: usize) -> bool {
        (a as u128) < self.size() as u128
            && (a as u128 + n as u128) <= self.size() as u128
            && a % 4 == 0
            && n % 4 == 0
    }

    pub fn deallocate(&mut self, a: usize, n: usize, ge: bool) -> bool {
        if !self.dealloc_ok(a, n) {
            return false;
        }
        let inside = |k: usize| k >= a && k < a + n;
        self.data.drain(a..a + n);
        let mv_loc = |k: usize| if k >= a { k - n } else { k };
        let mv_tgt = |k: usize| if k > a || (k >= a && ge) { k - n } else { k };
        self.text = self
            .text
            .iter()
            .filter(|(k, _)| !inside(**k))
            .map(|(k, v)| (mv_loc(*k), v.clone()))
            .collect();
        self.cstr = self
            .cstr
            .iter()
            .filter(|(k, _)| !inside(**k))
            .map(|(k, v)| (mv_loc(*k), v.clone()))
            .collect();
        self.ptrs = self
            .ptrs
            .iter()
            .filter(|(k, v)| !inside(**k) && !inside(**v))
            .map(|(k, v)| (mv_loc(*k), mv_tgt(*v)))
            .collect();
        let mut nl: BTreeMap<usize, Vec<String>> = BTreeMap::new();
        for (k, v) in self.labels.iter().filter(|(k, _)| !inside(**k)) {
            nl.entry(mv_tgt(*k)).or_default().extend(v.iter().cloned());
        }
        self.labels = nl;
        true
    }

    /// truncate at an aligned address below size. Pointers *before* the cut whose target is at or
    /// beyond it are left in place here; the caller reconciles them with what the implementation
    /// did (the statement is silent about them).
    pub fn truncate(&mut self, a: usize) {
        if a >= self.size() {
            return;
        }
        self.data.truncate(a);
        self.text.retain(|k, _| *k < a);
        self.cstr.retain(|k, _| *k < a);
        self.ptrs.retain(|k, _| *k < a);
        self.labels.retain(|k, _| *k < a);
    }

    // ---- annotation writes (positional API semantics) ----
    pub fn write_label(&mut self, addr: usize, l: &str) -> bool {
        if addr > self.size() {
            return false;
        }
        self.labels.entry(addr).or_default().push(l.to_string());
        true
    }
    pub fn write_labels(&mut self, addr: usize, ls: Vec<String>) -> bool {
        if addr > self.size() {
            return false;
        }
        self.labels.insert(addr, ls);
        true
    }

    pub fn fingerprint(&self) -> u64 {
        let mut h = crate::prng::fnv(&self.data);
        h = crate::prng::fnv_add(h, &[self.be as u8]);
        for (k, v) in &self.text {
            h = crate::prng::fnv_add(h, &k.to_le_bytes());
            h = crate::prng::fnv_add(h, v.as_bytes());
        }
        for (k, v) in &self.ptrs {
            h = crate::prng::fnv_add(h, &k.to_le_bytes());
            h = crate::prng::fnv_add(h, &v.to_le_bytes());
        }
        for (k, v) in &self.cstr {
            h = crate::prng::fnv_add(h, &k.to_le_bytes());
            h = crate::prng::fnv_add(h, v.as_bytes());
            h = crate::prng::fnv_add(h, b"c");
        }
        for (k, v) in &self.labels {
            h = crate::prng::fnv_add(h, &k.to_le_bytes());
            for l in v {
                h = crate::prng::fnv_add(h, l.as_bytes());
                h = crate::prng::fnv_add(h, b"|");
            }
        }
        h
    }

    pub fn describe(&self) -> String {
        format!(
            "{{endian:{}, size:{}, data:{}, text:{:?}, ptrs:{:?}, labels:{:?}, cstr:{:?}}}",
            if self.be { "BE" } else { "LE" },
            self.size(),
            crate::json::hex_short(&self.data, 96),
            self.text,
            self.ptrs,
            self.labels,
            self.cstr
        )
    }
}

/// Snapshot through the `verif-hooks` hook (sees everything, incl. pending c-strings).
pub fn observe_hook(a: &BinArchive, be: bool) -> Result<RefArchive, String> {
    let (data, text, ptrs, labels, cstrings) = a.verif_snapshot();
    let mut r = RefArchive::new(be);
    r.data = data;
    r.text = text.into_iter().collect();
    r.ptrs = ptrs.into_iter().collect();
    r.labels = labels.into_iter().collect();
    for (s, cells) in cstrings {
        for c in cells {
            if let Some(prev) = r.cstr.insert(c, s.clone()) {
                return Err(format!(
                    "cell {:#x} carries two pending c-strings ({:?} and {:?})",
                    c, prev, s
                ));
            }
        }
    }
    Ok(r)
}

/// Snapshot through public accessors only (no c-strings: they have no accessor).
pub fn observe_public(a: &BinArchive, be: bool) -> Result<RefArchive, String> {
    let mut r = RefArchive::new(be);
    let size = a.size();
    if size > 0 {
        r.data = a
            .read_bytes(0, size)
            .map_err(|e| format!("read_bytes(0,{}) failed: {}", size, e))?
            .to_vec();
    }
    let mut cell = 0usize;
    while cell + 4 <= size {
        if let Some(s) = a.read_string(cell).map_err(|e| format!("read_string({}) {}", cell, e))? {
            r.text.insert(cell, s);
        }
        if let Some(p) = a.read_pointer(cell).map_err(|e| format!("read_pointer({}) {}", cell, e))? {
            r.ptrs.insert(cell, p);
        }
        cell += 4;
    }
    for (addr, l) in a.all_labels() {
        r.labels.entry(addr).or_default().push(l);
    }
    // cross-check read_labels with all_labels on every cell
    let mut cell = 0usize;
    while cell + 4 <= size {
        let got = a
            .read_labels(cell)
            .map_err(|e| format!("read_labels({}) {}", cell, e))?
            .unwrap_or_default();
        let exp = r.labels.get(&cell).cloned().unwrap_or_default();
        if got != exp {
            return Err(format!(
                "read_labels({}) = {:?} but all_labels lists {:?}",
                cell, got, exp
            ));
        }
        cell += 4;
    }
    Ok(r)
}

/// Full observation: hook snapshot, cross-checked against the public view.
pub fn observe(a: &BinArchive, be: bool) -> Result<RefArchive, String> {
    let h = observe_hook(a, be)?.normalized();
    let p = observe_public(a, be)?.normalized();
    if h.data != p.data {
        return Err("public read_bytes disagrees with internal data".into());
    }
    // the public view can only see annotations on whole cells inside the data
    let size = h.size();
    for (k, v) in &p.text {
        if h.text.get(k) != Some(v) {
            return Err(format!("read_string({}) = {:?} not in snapshot", k, v));
        }
    }
    for (k, v) in &h.text {
        if k % 4 == 0 && k + 4 <= size && p.text.get(k) != Some(v) {
            return Err(format!("snapshot string at {} = {:?} not visible via read_string", k, v));
        }
    }
    for (k, v) in &p.ptrs {
        if h.ptrs.get(k) != Some(v) {
            return Err(format!("read_pointer({}) = {:?} not in snapshot", k, v));
        }
    }
    if h.labels != p.labels {
        return Err(format!(
            "all_labels {:?} disagrees with snapshot labels {:?}",
            p.labels, h.labels
        ));
    }
    let dests: std::collections::BTreeSet<usize> = a.pointer_destinations().into_iter().collect();
    let exp: std::collections::BTreeSet<usize> = h.ptrs.values().copied().collect();
    if dests != exp {
        return Err(format!(
            "pointer_destinations {:?} disagrees with pointers {:?}",
            dests, h.ptrs
        ));
    }
    Ok(h)
}

/// First difference between model and observation, as text; None when equal.
pub fn diff(model: &RefArchive, got: &RefArchive) -> Option<String> {
    let m = model.normalized();
    let g = got.normalized();
    if m.data.len() != g.data.len() {
        return Some(format!("size: expected {} got {}", m.data.len(), g.data.len()));
    }
    if m.data != g.data {
        let i = m.data.iter().zip(g.data.iter()).position(|(a, b)| a != b).unwrap();
        return Some(format!(
            "byte at {:#x}: expected {:02x} got {:02x}",
            i, m.data[i], g.data[i]
        ));
    }
    if m.text != g.text {
        return Some(format!("strings: expected {:?} got {:?}", m.text, g.text));
    }
    if m.ptrs != g.ptrs {
        return Some(format!("pointers: expected {:?} got {:?}", m.ptrs, g.ptrs));
    }
    if m.labels != g.labels {
        return Some(format!("labels: expected {:?} got {:?}", m.labels, g.labels));
    }
    if m.cstr != g.cstr {
        return Some(format!("pending c-strings: expected {:?} got {:?}", m.cstr, g.cstr));
    }
    None
}

/// Build the real archive from a model through the public API, issuing the calls in a random
/// order (per-address label order is preserved, since it is content).
pub fn build_real(m: &RefArchive, rng: &mut Rng) -> Result<BinArchive, String> {
    let mut a = BinArchive::new(endian(m.be));
    // data first (allocation), in 1..3 chunks
    let n = m.size();
    let cut = if n > 0 { rng.below(n + 1) } else { 0 };
    a.allocate_at_end(cut);
    a.allocate_at_end(n - cut);
    #[derive(Clone)]
    enum Op {
        Bytes(usize, usize),
        Text(usize),
        Ptr(usize),
        CStr(usize),
        Label(usize),
        Rejected(usize),
    }
    let mut ops: Vec<Op> = Vec::new();
    // every third build also issues calls that must be rejected (addresses outside the data);
    // they must return Err and leave nothing behind that shows in the serialized image
    if rng.chance(1, 3) {
        for k in 0..rng.range(1, 5) {
            ops.push(Op::Rejected(k + rng.below(5)));
        }
    }
    // raw bytes in random chunks
    let mut pos = 0;
    while pos < n {
        let len = rng.range(1, (n - pos).min(16));
        ops.push(Op::Bytes(pos, len));
        pos += len;
    }
    for k in m.text.keys() {
        ops.push(Op::Text(*k));
    }
    for k in m.ptrs.keys() {
        ops.push(Op::Ptr(*k));
    }
    for k in m.cstr.keys() {
        ops.push(Op::CStr(*k));
    }
    // most buckets are built one write_label at a time; some through the bulk call write_labels,
    // which REPLACES whatever the address carried (so junk written before it must vanish)
    let mut bulk: Vec<usize> = Vec::new();
    for (k, v) in &m.labels {
        if rng.chance(1, 5) {
            bulk.push(*k);
        } else {
            for _ in 0..v.len() {
                ops.push(Op::Label(*k));
            }
        }
    }
    rng.shuffle(&mut ops);
    let mut label_next: BTreeMap<usize, usize> = BTreeMap::new();
    let overwrite = rng.chance(1, 4);
    for op in ops {
        let r: Result<(), String> = match op {
            Op::Bytes(p, l) => a.write_bytes(p, &m.data[p..p + l]).map_err(|e| e.to_string()),
            // a cell may be written more than once: the LAST value counts
            Op::Text(k) => {
                if overwrite && k % 3 == 0 {
                    a.write_string(k, Some("stale string to be overwritten")).map_err(|e| e.to_string())?;
                }
                a.write_string(k, Some(&m.text[&k])).map_err(|e| e.to_string())
            }
            Op::Ptr(k) => {
                if overwrite && k % 3 != 1 {
                    a.write_pointer(k, Some((m.ptrs[&k] + 4) % (n + 1))).map_err(|e| e.to_string())?;
                }
                a.write_pointer(k, Some(m.ptrs[&k])).map_err(|e| e.to_string())
            }
            Op::CStr(k) => a.write_c_string(k, m.cstr[&k].clone()).map_err(|e| e.to_string()),
            Op::Label(k) => {
                let i = label_next.entry(k).or_insert(0);
                let l = &m.labels[&k][*i];
                *i += 1;
                a.write_label(k, l).map_err(|e| e.to_string())
            }
            Op::Rejected(kind) => {
                let beyond = ((n + 3) / 4) * 4 + 4 * (kind % 3);
                let last_cell_straddles = n.saturating_sub(n % 4).max(if n % 4 == 0 { n } else { 0 });
                let (what, res): (&str, Result<(), String>) = match kind % 6 {
                    0 => ("write_c_string beyond the data", a.write_c_string(beyond, format!("ghost_c_{}", kind)).map_err(|e| e.to_string())),
                    1 => ("write_string beyond the data", a.write_string(beyond, Some(&format!("ghost_s_{}", kind))).map_err(|e| e.to_string())),
                    2 => ("write_pointer beyond the data", a.write_pointer(beyond, Some(0)).map_err(|e| e.to_string())),
                    3 => ("write_label beyond the data", a.write_label(beyond + 1, &format!("ghost_l_{}", kind)).map_err(|e| e.to_string())),
                    4 => ("write_c_string at usize::MAX - 3", a.write_c_string(usize::MAX - 3, "ghost_max".to_string()).map_err(|e| e.to_string())),
                    _ => {
                        // a cell that starts inside the data but does not fit (only when the length is unaligned or zero)
                        if n % 4 != 0 || n == 0 {
                            ("write_string on a cell that does not fit", a.write_string(last_cell_straddles, Some("ghost_fit")).map_err(|e| e.to_string()))
                        } else {
                            ("write_string beyond the data", a.write_string(beyond, Some("ghost_fit")).map_err(|e| e.to_string()))
                        }
                    }
                };
                match res {
                    Err(_) => Ok(()),
                    Ok(()) => Err(format!("REJECTED-CALL-ACCEPTED: {} returned Ok on an archive of {} bytes", what, n)),
                }
            }
        };
        r.map_err(|e| format!("building archive through the API failed: {}", e))?;
    }
    for k in bulk {
        if rng.bool() {
            a.write_label(k, "junk_to_be_replaced").map_err(|e| format!("building archive through the API failed: {}", e))?;
        }
        a.write_labels(k, m.labels[&k].clone()).map_err(|e| format!("building archive through the API failed: {}", e))?;
    }
    Ok(a)
}

/// Build deterministically (fixed call order): data, bytes, strings, pointers, c-strings, labels.
pub fn build_real_plain(m: &RefArchive) -> Result<BinArchive, String> {
    let mut a = BinArchive::new(endian(m.be));
    a.allocate_at_end(m.size());
    if m.size() > 0 {
        a.write_bytes(0, &m.data).map_err(|e| e.to_string())?;
    }
    for (k, v) in &m.text {
        a.write_string(*k, Some(v)).map_err(|e| e.to_string())?;
    }
    for (k, v) in &m.ptrs {
        a.write_pointer(*k, Some(*v)).map_err(|e| e.to_string())?;
    }
    for (k, v) in &m.cstr {
        a.write_c_string(*k, v.clone()).map_err(|e| e.to_string())?;
    }
    for (k, v) in &m.labels {
        for l in v {
            a.write_label(*k, l).map_err(|e| e.to_string())?;
        }
    }
    Ok(a)
}

/// Same calls as `build_real_plain`, but the one object is serialized between its edits (after
/// each stage, and before every label that joins an address which already has one): the history
/// "serialize, edit, serialize again" on a single object. `serialize` takes `&self`, so the final
/// content - and with it the final image - must be the same as for any other call order.
pub fn build_real_staged(m: &RefArchive) -> Result<(BinArchive, usize), String> {
    let mut a = BinArchive::new(endian(m.be));
    let mut snaps = 0usize;
    let mut snap = |a: &BinArchive| {
        let _ = a.serialize();
        snaps += 1;
    };
    a.allocate_at_end(m.size());
    snap(&a);
    if m.size() > 0 {
        a.write_bytes(0, &m.data).map_err(|e| e.to_string())?;
    }
    let mut budget = 24usize;
    for (i, (k, v)) in m.text.iter().enumerate() {
        if i > 0 && budget > 0 && i % 3 == 1 {
            budget -= 1;
            snap(&a);
        }
        a.write_string(*k, Some(v)).map_err(|e| e.to_string())?;
    }
    snap(&a);
    for (k, v) in &m.ptrs {
        a.write_pointer(*k, Some(*v)).map_err(|e| e.to_string())?;
    }
    snap(&a);
    let mut budget = 32usize;
    for (k, v) in &m.labels {
        for (i, l) in v.iter().enumerate() {
            if i > 0 && budget > 0 {
                budget -= 1;
                snap(&a);
            }
            a.write_label(*k, l).map_err(|e| e.to_string())?;
        }
        if budget > 0 && v.len() == 1 && *k % 3 == 0 {
            budget -= 1;
            snap(&a);
        }
    }
    Ok((a, snaps))
}

pub struct GenOpts {
    pub max_cells: usize,
    pub allow_unaligned_len: bool,
    pub cstrings: bool,
    pub max_labels: usize,
    pub string_len: usize,
}

/// Random archive content inside the domain of C01/C02.
pub fn gen_content(rng: &mut Rng, o: &GenOpts) -> RefArchive {
    use crate::refs::strings::{gen_ident, gen_sjis};
    let mut m = RefArchive::new(rng.bool());
    let cells = rng.skewed(o.max_cells);
    let mut len = cells * 4;
    if o.allow_unaligned_len && rng.chance(1, 3) {
        len += rng.range(1, 3);
    }
    m.data = rng.bytes(len);
    if rng.chance(1, 8) {
        for b in m.data.iter_mut() {
            *b = 0;
        }
    }
    // string pool with repetitions
    let npool = rng.range(1, 6);
    let mut pool: Vec<String> = (0..npool).map(|_| gen_sjis(rng, o.string_len)).collect();
    if rng.chance(1, 3) {
        pool.push(String::new());
    }
    let mut names: Vec<String> = (0..rng.range(1, 5)).map(|_| gen_ident(rng, 8)).collect();
    if rng.chance(1, 3) {
        names.push(crate::refs::strings::gen_sjis_nonempty(rng, 6));
    }
    if rng.chance(1, 6) {
        names.push(String::new()); // the empty name is a legal (NUL-free) label
    }
    if rng.chance(1, 4) {
        // a label name equal to a string
        let s = rng.pick(&pool).clone();
        names.push(s);
    }
    if rng.chance(1, 16) {
        // two distinct strings that collide under a common hash function
        let (a, b) = *rng.pick(&crate::refs::strings::COLLIDING_PAIRS);
        let (x, y) = if rng.bool() { (a, b) } else { (b, a) };
        match rng.below(3) {
            0 => {
                pool.push(x.to_string());
                pool.push(y.to_string());
            }
            1 => {
                names.push(x.to_string());
                names.push(y.to_string());
            }
            _ => {
                pool.push(x.to_string());
                names.push(y.to_string());
                names.push(x.to_string());
                pool.push(y.to_string());
            }
        }
    }
    let density = rng.range(0, 4); // of 4
    for c in 0..cells {
        let cell = c * 4;
        if rng.below(4) < density {
            match rng.below(if o.cstrings { 3 } else { 2 }) {
                0 => {
                    m.text.insert(cell, rng.pick(&pool).clone());
                }
                1 => {
                    let tgt = match rng.below(4) {
                        0 => len,
                        1 => rng.range(0, len),
                        _ => (rng.range(0, len) / 4) * 4,
                    };
                    m.ptrs.insert(cell, tgt);
                }
                _ => {
                    m.cstr.insert(cell, rng.pick(&pool).clone());
                }
            }
        }
    }
    // large label budgets are used in full half of the time (skewed() alone rarely gets there)
    let nlabels = if o.max_labels > 100 && rng.bool() { rng.range(o.max_labels / 4, o.max_labels) } else { rng.skewed(o.max_labels) };
    for _ in 0..nlabels {
        let addr = match rng.below(5) {
            0 => len,
            1 => rng.range(0, len),
            _ => (rng.range(0, len) / 4) * 4,
        };
        let name = rng.pick(&names).clone();
        m.labels.entry(addr).or_default().push(name);
    }
    m
}


/// Contents built around table-size thresholds (C01/C02 domain): exact pointer-table entry counts
/// and label counts at and around 128/256/512/4096/65536, and text sections longer than 64 KiB in
/// which late strings are referenced again. `which` enumerates the variants; returns None past the end.
pub const THRESHOLD_VARIANTS: usize = 13 + 12 + 3 + 2 + 2;

pub fn threshold_content(rng: &mut Rng, which: usize, cstrings: bool) -> Option<(String, RefArchive)> {
    use crate::refs::strings::{gen_ident, gen_sjis};
    const PTRS: [usize; 13] = [127, 128, 129, 255, 256, 257, 511, 512, 513, 4095, 4096, 4097, 5000];
    const LABELS: [usize; 12] = [127, 128, 129, 255, 256, 257, 4096, 4097, 65535, 65536, 65537, 70000];
    let mut m = RefArchive::new(rng.bool());
    if which < PTRS.len() {
        // exactly K entries in the pointer table (pointers + strings [+ c-strings])
        let k = PTRS[which];
        let cells = k + rng.range(0, 3);
        let extra = if rng.chance(1, 3) { rng.range(1, 3) } else { 0 };
        m.data = rng.bytes(cells * 4 + extra);
        let pool: Vec<String> = (0..5).map(|_| gen_sjis(rng, 6)).collect();
        let mut order: Vec<usize> = (0..cells).collect();
        rng.shuffle(&mut order);
        for (i, c) in order.into_iter().take(k).enumerate() {
            match (i + which) % if cstrings { 3 } else { 2 } {
                0 => {
                    m.ptrs.insert(c * 4, (rng.range(0, m.data.len()) / 4) * 4);
                }
                1 => {
                    m.text.insert(c * 4, rng.pick(&pool).clone());
                }
                _ => {
                    m.cstr.insert(c * 4, rng.pick(&pool).clone());
                }
            }
        }
        let nl = *rng.pick(&[0usize, 1, 127, 128, 129]);
        for i in 0..nl {
            let addr = (rng.range(0, m.data.len()) / 4) * 4;
            m.labels.entry(addr).or_default().push(format!("L{}_{}", i % 7, gen_ident(rng, 3)));
        }
        return Some((format!("pointer_table_of_{}_entries", k), m));
    }
    let which = which - PTRS.len();
    if which < LABELS.len() {
        let k = LABELS[which];
        let cells = rng.range(1, 40);
        m.data = rng.bytes(cells * 4);
        let names: Vec<String> = (0..rng.range(1, 9)).map(|_| gen_ident(rng, 6)).collect();
        for i in 0..k {
            let addr = match rng.below(6) {
                0 => m.data.len(),
                1 => rng.range(0, m.data.len()),
                _ => (rng.range(0, m.data.len()) / 4) * 4,
            };
            let name = if i % 3 == 0 { format!("N{}", i) } else { rng.pick(&names).clone() };
            m.labels.entry(addr).or_default().push(name);
        }
        if rng.bool() {
            m.text.insert(0, "s".to_string());
        }
        return Some((format!("label_table_of_{}_entries", k), m));
    }
    let which = which - LABELS.len();
    if which < 3 {
        // text section longer than 64 KiB; strings and names stored late are referenced again
        let nstr = 300 + which * 40;
        let strs: Vec<String> = (0..nstr).map(|i| format!("{:04}_{}", i, "x".repeat(200 + (i * 7) % 60))).collect();
        let cells = nstr * 2 + 8;
        m.data = rng.bytes(cells * 4);
        for (i, s) in strs.iter().enumerate() {
            m.text.insert(i * 4, s.clone());
        }
        // second references, in another order
        for i in 0..nstr {
            let j = (i * 7 + 3) % nstr;
            m.text.insert((nstr + i) * 4, strs[j].clone());
        }
        // label names equal to late strings, and late fresh names used twice
        for i in 0..40 {
            let a = ((i * 13) % cells) * 4;
            m.labels.entry(a).or_default().push(strs[nstr - 1 - i].clone());
            let fresh = format!("late_name_{}_{}", i, "y".repeat(100));
            m.labels.entry(a).or_default().push(fresh.clone());
            m.labels.entry(((i * 29 + 5) % cells) * 4).or_default().push(fresh);
        }
        return Some((format!("text_section_beyond_64KiB_variant_{}", which), m));
    }
    let which = which - 3;
    if which < 2 {
        // many distinct strings / names of one family (a fixed prefix and a running number), and the
        // string pairs known to collide under the hash functions a Rust crate has at hand: every
        // distinct string keeps its own identity in the pool
        let mut strs: Vec<String> = if which == 0 { (0..600).map(|i| format!("MID_{:05}", i)).collect() } else { (0..300).map(|i| format!("PID_{:04}_H", i)).collect() };
        for (a, b) in crate::refs::strings::COLLIDING_PAIRS {
            strs.push(a.to_string());
            strs.push(b.to_string());
        }
        rng.shuffle(&mut strs);
        let cells = strs.len() + 16;
        m.data = rng.bytes(cells * 4);
        for (i, s) in strs.iter().enumerate() {
            m.text.insert(i * 4, s.clone());
        }
        for (i, s) in strs.iter().enumerate() {
            if i % 2 == which {
                m.labels.entry(((i * 7) % cells) * 4).or_default().push(s.clone());
            }
        }
        return Some((format!("string_family_and_hash_colliding_pairs_variant_{}", which), m));
    }
    let which = which - 2;
    if which < 2 {
        // one very long string and one very long label name: a little over 1 MiB, or over 16 MiB
        // (nothing in the format bounds the length of a string)
        let n = if which == 0 { (1usize << 20) + 16 } else { (1usize << 24) + 16 };
        m.data = rng.bytes(16);
        let long: String = (0..n).map(|i| (b'a' + (i % 23) as u8) as char).collect();
        m.text.insert(4, long);
        m.text.insert(8, "short".to_string());
        let long_name: String = (0..n / 2 + 5).map(|i| (b'A' + (i % 19) as u8) as char).collect();
        m.labels.entry(8).or_default().push(long_name);
        m.labels.entry(0).or_default().push("first".to_string());
        return Some((format!("string_of_{}_bytes", n), m));
    }
    None
}
