//! Reference builders / readers for the GameCube/Wii pack archive (C15) and the 3DS arc (C16).
use super::archive::RefArchive;
use super::image;
use super::strings::{sjis_decode, sjis_encode};
use crate::prng::Rng;

// ------------------------------------------------------------------------------------------ pack

pub struct PackEntry {
    pub name: String,
    pub name_off: usize,
    pub body_off: usize,
    pub size: usize,
    pub body: Vec<u8>,
}

fn be32(b: &[u8], at: usize) -> Option<u32> {
    let s = b.get(at..at.checked_add(4)?)?;
    Some(u32::from_be_bytes([s[0], s[1], s[2], s[3]]))
}

/// Strict reader for a pack image.
pub fn pack_read(b: &[u8]) -> Result<Vec<PackEntry>, String> {
    if b.len() < 8 {
        return Err("shorter than the 8-byte header".into());
    }
    if &b[0..4] != b"pack" {
        return Err("magic is not 'pack'".into());
    }
    let count = u16::from_be_bytes([b[4], b[5]]) as usize;
    let mut out = Vec::new();
    for i in 0..count {
        let e = 8 + 16 * i;
        let name_off = be32(b, e + 4).ok_or("entry table truncated")? as usize;
        let body_off = be32(b, e + 8).ok_or("entry table truncated")? as usize;
        let size = be32(b, e + 12).ok_or("entry table truncated")? as usize;
        let rest = b.get(name_off..).ok_or_else(|| format!("entry {} name offset {:#x} beyond file", i, name_off))?;
        let n = rest.iter().position(|x| *x == 0).ok_or_else(|| format!("entry {} name not terminated", i))?;
        let (name, err) = sjis_decode(&rest[..n]);
        if err {
            return Err(format!("entry {} name is not Shift-JIS", i));
        }
        let end = body_off.checked_add(size).ok_or("offset+size overflow")?;
        let body = b.get(body_off..end).ok_or_else(|| format!("entry {} body {:#x}+{:#x} leaves the file of {} bytes", i, body_off, size, b.len()))?.to_vec();
        out.push(PackEntry { name, name_off, body_off, size, body });
    }
    Ok(out)
}

#[derive(Debug, Default, Clone)]
pub struct PackPlan {
    /// no zero padding after the last body / at the end of the file (files only have to START on a
    /// 32-byte boundary)
    pub no_tail_padding: bool,
    pub names_after_bodies: bool,
    pub reverse_bodies: bool,
    pub extra_padding: bool,
    pub shared_name_storage: bool,
}

/// A conforming pack image of `files` with a placement chosen by `plan`.
pub fn pack_build(files: &[(String, Vec<u8>)], plan: &PackPlan, rng: &mut Rng) -> Vec<u8> {
    let n = files.len();
    let header = 8 + 16 * n;
    let mut img = vec![0u8; header];
    img[0..4].copy_from_slice(b"pack");
    img[4..6].copy_from_slice(&(n as u16).to_be_bytes());
    let mut name_off = vec![0usize; n];
    let mut body_off = vec![0usize; n];
    let pad32 = |v: &mut Vec<u8>| {
        while v.len() % 32 != 0 {
            v.push(0);
        }
    };
    let put_names = |img: &mut Vec<u8>, name_off: &mut Vec<usize>, rng: &mut Rng| {
        let mut order: Vec<usize> = (0..n).collect();
        if plan.shared_name_storage {
            rng.shuffle(&mut order);
        }
        // suffix sharing: an ASCII name that is a proper suffix of an already stored ASCII name
        let mut stored: Vec<(usize, Vec<u8>)> = Vec::new(); // (offset, bytes)
        for i in order {
            let enc = sjis_encode(&files[i].0).expect("domain name");
            let mut placed = None;
            if plan.shared_name_storage && files[i].0.is_ascii() {
                for (off, bytes) in &stored {
                    if bytes.len() > enc.len() && bytes.ends_with(&enc) && bytes.is_ascii() {
                        placed = Some(off + bytes.len() - enc.len());
                        break;
                    }
                }
            }
            match placed {
                Some(o) => name_off[i] = o,
                None => {
                    name_off[i] = img.len();
                    stored.push((img.len(), enc.clone()));
                    img.extend(&enc);
                    img.push(0);
                    if plan.extra_padding && rng.chance(1, 3) {
                        img.extend(std::iter::repeat(0).take(rng.range(1, 5)));
                    }
                }
            }
        }
    };
    let put_bodies = |img: &mut Vec<u8>, body_off: &mut Vec<usize>, rng: &mut Rng| {
        let mut order: Vec<usize> = (0..n).collect();
        if plan.reverse_bodies {
            order.reverse();
        }
        for i in order {
            pad32(img);
            if plan.extra_padding && rng.chance(1, 3) {
                img.extend(std::iter::repeat(0xCD).take(32 * rng.range(1, 2)));
            }
            body_off[i] = img.len();
            img.extend(&files[i].1);
        }
        if !plan.no_tail_padding {
            pad32(img);
        }
    };
    if plan.names_after_bodies {
        put_bodies(&mut img, &mut body_off, rng);
        put_names(&mut img, &mut name_off, rng);
        if !plan.no_tail_padding {
            pad32(&mut img);
        }
    } else {
        put_names(&mut img, &mut name_off, rng);
        put_bodies(&mut img, &mut body_off, rng);
    }
    for i in 0..n {
        let e = 8 + 16 * i;
        img[e + 4..e + 8].copy_from_slice(&(name_off[i] as u32).to_be_bytes());
        img[e + 8..e + 12].copy_from_slice(&(body_off[i] as u32).to_be_bytes());
        img[e + 12..e + 16].copy_from_slice(&(files[i].1.len() as u32).to_be_bytes());
    }
    img
}

// ------------------------------------------------------------------------------------------- arc

#[derive(Debug, Default, Clone)]
pub struct ArcPlan {
    pub padded_header: bool,
    pub shuffle_bodies: bool,
    pub shuffle_records: bool,
    pub gaps: bool,
    pub decoy_labels: bool,
    /// Count word and Info table before the file bodies (the last body then ends the data region)
    pub tables_first: bool,
    /// the Count word does not sit right in front of the Info table but at the very end of the data
    pub count_far: bool,
    /// error variants
    pub drop_count_label: bool,
    pub drop_info_label: bool,
    pub nameless_record: Option<usize>,
    pub out_of_range_record: Option<usize>,
    /// identical bodies are stored once; their records give the same range
    pub share_bodies: bool,
}

/// Build a conforming (or deliberately broken, per plan) arc image.
/// Returns the image bytes.
pub fn arc_build(files: &[(String, Vec<u8>)], plan: &ArcPlan, rng: &mut Rng) -> Vec<u8> {
    let n = files.len();
    let mut a = RefArchive::new(false);
    let base = if plan.padded_header { 0x60 } else { 0 };
    a.data = vec![0u8; base];
    // bodies (placed before or after the tables)
    let mut order: Vec<usize> = (0..n).collect();
    if plan.shuffle_bodies {
        rng.shuffle(&mut order);
    }
    let mut off = vec![0usize; n]; // relative to the start of the body area
    let mut bodies: Vec<u8> = Vec::new();
    if !plan.padded_header && !plan.tables_first {
        // the format detects the header by a zero first word: keep the first word non-zero
        bodies.extend_from_slice(&[0xAB, 0xCD, 0xEF, 0x01]);
    }
    let data_label_rel = bodies.len();
    let mut placed = vec![false; n];
    for i in order {
        if plan.gaps {
            let g = rng.range(0, 9);
            bodies.extend(std::iter::repeat(0x5A).take(g));
        }
        if plan.share_bodies {
            if let Some(j) = (0..n).find(|&j| j != i && placed[j] && files[j].1 == files[i].1) {
                off[i] = off[j];
                placed[i] = true;
                continue;
            }
        }
        off[i] = bodies.len();
        placed[i] = true;
        bodies.extend(&files[i].1);
    }
    let body_base; // address of the body area in the data region
    let count_at;
    let info_at;
    let rec_at;
    let table_len = 4 + 16 * n;
    if plan.tables_first {
        count_at = a.data.len();
        info_at = count_at + 4;
        rec_at = info_at;
        a.data.extend(std::iter::repeat(0).take(table_len));
        body_base = a.data.len();
        a.data.extend(&bodies); // the last body ends the data region: no trailing padding
    } else {
        body_base = a.data.len();
        a.data.extend(&bodies);
        while a.data.len() % 4 != 0 {
            a.data.push(0);
        }
        if plan.gaps && rng.bool() {
            a.data.extend_from_slice(&[0; 8]);
        }
        count_at = a.data.len();
        info_at = count_at + 4;
        rec_at = info_at;
        a.data.extend(std::iter::repeat(0).take(table_len));
    }
    let data_label_at = body_base + data_label_rel;
    let count_at = if plan.count_far {
        // the in-table slot keeps a decoy value; the labelled Count word is appended at the end
        a.data[count_at..count_at + 4].copy_from_slice(&0xDEAD_0000u32.to_le_bytes());
        while a.data.len() % 4 != 0 {
            a.data.push(0);
        }
        let at = a.data.len();
        a.data.extend_from_slice(&[0; 4]);
        at
    } else {
        count_at
    };
    let final_len = a.data.len();
    a.data[count_at..count_at + 4].copy_from_slice(&(n as u32).to_le_bytes());
    let mut rec_order: Vec<usize> = (0..n).collect();
    if plan.shuffle_records {
        rng.shuffle(&mut rec_order);
    }
    let index_mode = rng.below(6);
    for (slot, i) in rec_order.iter().enumerate() {
        let at = rec_at + 16 * slot;
        let mut size = files[*i].1.len() as u32;
        let mut offset = (body_base + off[*i] - base) as u32;
        if plan.out_of_range_record == Some(slot) {
            size = size.max(1);
            match rng.below(5) {
                4 => size |= 0x8000_0000, // the low 31 bits alone would fit
                0 => size = (final_len + 1000) as u32,
                1 => offset = 0x00FF_FFF0,
                2 => offset = 0xFFFF_FFF0, // + 0x60 does not fit in 32 bits
                _ => offset = (final_len - base + 1) as u32,
            }
        }
        // the index word is not used for extraction: usually the slot number, sometimes all equal,
        // sometimes arbitrary
        let index_word = match index_mode {
            0 | 1 | 2 => slot as u32,
            3 => 0,
            4 => 7,
            _ => rng.u32(),
        };
        a.data[at + 4..at + 8].copy_from_slice(&index_word.to_le_bytes());
        a.data[at + 8..at + 12].copy_from_slice(&size.to_le_bytes());
        a.data[at + 12..at + 16].copy_from_slice(&offset.to_le_bytes());
        if plan.nameless_record != Some(slot) {
            a.text.insert(at, files[*i].0.clone());
        } else if rng.bool() {
            // the name cell is not empty but holds an ordinary pointer into the data region
            // (where some bytes followed by a zero can be found): still a record without a name
            let target = *rng.pick(&[base, body_base, data_label_at, at]);
            a.ptrs.insert(at, target.min(final_len.saturating_sub(1)));
        }
        if plan.decoy_labels {
            a.labels.entry(at).or_default().push(files[*i].0.clone());
        }
    }
    // labels; `Info` first on its address like the sample file
    if !plan.drop_info_label {
        a.labels.entry(info_at).or_default().insert(0, "Info".into());
    } else if rng.bool() {
        // a label that differs from the reserved one only in case / by a blank is NOT that label
        a.labels.entry(info_at).or_default().insert(0, rng.pick(&["INFO", "info", "Info ", "Inf"]).to_string());
    }
    if !plan.drop_count_label {
        a.labels.entry(count_at).or_default().push("Count".into());
    } else if rng.bool() {
        a.labels.entry(count_at).or_default().push(rng.pick(&["COUNT", "count", " Count", "Counts"]).to_string());
    }
    if plan.decoy_labels {
        a.labels.entry(data_label_at).or_default().push("Data".into());
    }
    if rng.bool() {
        image::write_canonical(&a, None)
    } else {
        image::write_variant(&a, rng).0
    }
}
