//! Independent reference writer and strict reference reader for the bin-archive file image
//! (DESIGN §4.2, §4.3). Neither calls mila.
use super::archive::RefArchive;
use super::strings::{sjis_decode, sjis_encode};
use crate::prng::Rng;
use std::collections::{BTreeMap, HashMap};

pub fn put32(v: &mut Vec<u8>, x: u32, be: bool) {
    if be {
        v.extend_from_slice(&x.to_be_bytes())
    } else {
        v.extend_from_slice(&x.to_le_bytes())
    }
}
pub fn set32(v: &mut [u8], at: usize, x: u32, be: bool) {
    let b = if be { x.to_be_bytes() } else { x.to_le_bytes() };
    v[at..at + 4].copy_from_slice(&b);
}
pub fn get32(v: &[u8], at: usize, be: bool) -> Option<u32> {
    if at.checked_add(4)? > v.len() {
        return None;
    }
    let mut b = [0u8; 4];
    b.copy_from_slice(&v[at..at + 4]);
    Some(if be { u32::from_be_bytes(b) } else { u32::from_le_bytes(b) })
}

/// Append the c-string pool to the data and turn c-string cells into internal pointers, the way a
/// conforming writer may: pool entries in any order, shared or duplicated, padded to 4 bytes.
pub fn flatten_cstrings(a: &RefArchive, mut rng: Option<&mut Rng>) -> RefArchive {
    let mut f = a.clone();
    f.cstr.clear();
    if a.cstr.is_empty() {
        return f;
    }
    let base = a.size();
    let mut pool: Vec<u8> = Vec::new();
    let mut seen: HashMap<String, usize> = HashMap::new();
    let mut cells: Vec<(&usize, &String)> = a.cstr.iter().collect();
    if let Some(r) = rng.as_deref_mut() {
        r.shuffle(&mut cells);
    }
    for (cell, s) in cells {
        let dup = match rng.as_deref_mut() {
            Some(r) => r.chance(1, 4),
            None => false,
        };
        let off = match seen.get(s) {
            Some(o) if !dup => *o,
            _ => {
                let o = pool.len();
                pool.extend(sjis_encode(s).expect("domain string"));
                pool.push(0);
                seen.insert(s.clone(), o);
                o
            }
        };
        f.ptrs.insert(*cell, base + off);
    }
    while pool.len() % 4 != 0 {
        pool.push(0);
    }
    f.data.extend(pool);
    f
}

/// The canonical image defined by C02. `bucket_order`: order of label addresses to use (for the
/// big-endian tie rule); None = ascending address (LE) / (name list, address) (BE).
pub fn write_canonical(a: &RefArchive, bucket_order: Option<&[usize]>) -> Vec<u8> {
    assert!(a.cstr.is_empty());
    let be = a.be;
    let mut data = a.data.clone();
    let mut text: Vec<u8> = Vec::new();
    let mut offs: HashMap<String, usize> = HashMap::new();
    let mut add = |s: &str, text: &mut Vec<u8>| -> usize {
        if let Some(o) = offs.get(s) {
            return *o;
        }
        let o = text.len();
        text.extend(sjis_encode(s).expect("domain string"));
        text.push(0);
        offs.insert(s.to_string(), o);
        o
    };
    // label table
    let mut buckets: Vec<(usize, &Vec<String>)> = a.labels.iter().map(|(k, v)| (*k, v)).collect();
    match bucket_order {
        Some(order) => {
            let pos: HashMap<usize, usize> = order.iter().enumerate().map(|(i, a)| (*a, i)).collect();
            buckets.sort_by_key(|(k, _)| pos.get(k).copied().unwrap_or(usize::MAX));
        }
        None => {
            if be {
                buckets.sort_by(|x, y| x.1.cmp(y.1).then(x.0.cmp(&y.0)));
            }
        }
    }
    let mut label_tab: Vec<(u32, u32)> = Vec::new();
    for (addr, names) in &buckets {
        for n in names.iter() {
            let o = add(n, &mut text);
            label_tab.push((*addr as u32, o as u32));
        }
    }
    // pointer table: internal pointers ascending, then string pointers grouped by string
    let mut ptr_tab: Vec<u32> = a.ptrs.keys().map(|k| *k as u32).collect();
    let nptr = a.ptrs.len() + a.text.len();
    let text_start = a.size() + 4 * nptr + 8 * label_tab.len();
    let mut groups: Vec<(usize, Vec<u32>)> = Vec::new();
    for (cell, s) in &a.text {
        let o = add(s, &mut text);
        match groups.iter_mut().find(|(go, _)| *go == o) {
            Some((_, v)) => v.push(*cell as u32),
            None => groups.push((o, vec![*cell as u32])),
        }
        set32(&mut data, *cell, (text_start + o) as u32, be);
    }
    for (_, v) in groups {
        ptr_tab.extend(v);
    }
    for (cell, tgt) in &a.ptrs {
        set32(&mut data, *cell, *tgt as u32, be);
    }
    let total = 0x20 + data.len() + 4 * ptr_tab.len() + 8 * label_tab.len() + text.len();
    let mut out = Vec::with_capacity(total);
    put32(&mut out, total as u32, be);
    put32(&mut out, data.len() as u32, be);
    put32(&mut out, ptr_tab.len() as u32, be);
    put32(&mut out, label_tab.len() as u32, be);
    out.resize(0x20, 0);
    out.extend(&data);
    for p in ptr_tab {
        put32(&mut out, p, be);
    }
    for (a_, o) in label_tab {
        put32(&mut out, a_, be);
        put32(&mut out, o, be);
    }
    out.extend(&text);
    out
}

#[derive(Default, Debug, Clone)]
pub struct VariantInfo {
    pub ptr_permuted: bool,
    pub labels_permuted: bool,
    pub dup_strings: bool,
    pub filler: bool,
    pub suffix_shared: bool,
    pub strings_before_internal: bool,
}

/// A conforming image of the same content with another layout: pointer table permuted, label
/// table permuted (order within one address kept), text blobs in any order, shared or duplicated,
/// with unreferenced filler.
pub fn write_variant(a: &RefArchive, rng: &mut Rng) -> (Vec<u8>, VariantInfo) {
    assert!(a.cstr.is_empty());
    let be = a.be;
    let mut info = VariantInfo::default();
    // --- uses of text: label entries and string cells
    #[derive(Clone)]
    enum Use {
        Label(usize, usize), // addr, index within bucket
        Cell(usize),
    }
    let mut uses: Vec<(Use, String)> = Vec::new();
    for (addr, names) in &a.labels {
        for (i, n) in names.iter().enumerate() {
            uses.push((Use::Label(*addr, i), n.clone()));
        }
    }
    for (cell, s) in &a.text {
        uses.push((Use::Cell(*cell), s.clone()));
    }
    // --- blobs
    let mut blobs: Vec<Vec<u8>> = Vec::new(); // encoded with terminator
    let mut blob_of: Vec<(usize, usize)> = Vec::new(); // per use: (blob index, offset in blob)
    let mut by_text: HashMap<String, Vec<usize>> = HashMap::new();
    let dup_rate = rng.below(4); // 0: never duplicate
    for (_, s) in &uses {
        let enc = sjis_encode(s).expect("domain string");
        let existing = by_text.get(s).cloned().unwrap_or_default();
        let reuse = !existing.is_empty() && !(dup_rate > 0 && rng.below(4) < dup_rate);
        if reuse {
            blob_of.push((*rng.pick(&existing), 0));
        } else {
            // suffix sharing: an ASCII string may sit at the tail of a longer ASCII blob
            if s.is_ascii() && rng.chance(1, 6) {
                let pre_len = rng.range(1, 3);
                let mut b: Vec<u8> = (0..pre_len).map(|_| b'a' + rng.below(26) as u8).collect();
                b.extend(&enc);
                b.push(0);
                blobs.push(b);
                blob_of.push((blobs.len() - 1, pre_len));
                info.suffix_shared = true;
                // (not registered in by_text: offset differs)
                continue;
            }
            if !existing.is_empty() {
                info.dup_strings = true;
            }
            let mut b = enc.clone();
            b.push(0);
            blobs.push(b);
            by_text.entry(s.clone()).or_default().push(blobs.len() - 1);
            blob_of.push((blobs.len() - 1, 0));
        }
    }
    // filler blobs
    if rng.chance(1, 2) {
        for _ in 0..rng.range(1, 3) {
            let s = super::strings::gen_sjis(rng, 5);
            let mut b = sjis_encode(&s).unwrap();
            b.push(0);
            blobs.push(b);
            info.filler = true;
        }
    }
    // blob order
    let mut order: Vec<usize> = (0..blobs.len()).collect();
    rng.shuffle(&mut order);
    let mut blob_off = vec![0usize; blobs.len()];
    let mut text: Vec<u8> = Vec::new();
    if rng.chance(1, 5) {
        // leading unreferenced NULs are legal filler too
        text.extend(std::iter::repeat(0).take(rng.range(1, 3)));
        info.filler = true;
    }
    for bi in order {
        blob_off[bi] = text.len();
        text.extend(&blobs[bi]);
    }
    let text_off_of_use: Vec<usize> = blob_of.iter().map(|(b, o)| blob_off[*b] + *o).collect();
    // --- label table: random interleaving of per-address queues
    let mut queues: Vec<(usize, usize, usize)> = a
        .labels
        .iter()
        .filter(|(_, v)| !v.is_empty())
        .map(|(k, v)| (*k, 0usize, v.len()))
        .collect();
    let mut label_entries: Vec<(usize, usize)> = Vec::new(); // (addr, index)
    let interleave = rng.chance(2, 3);
    if !interleave {
        // still a permutation of buckets
        rng.shuffle(&mut queues);
    }
    while !queues.is_empty() {
        let qi = if interleave { rng.below(queues.len()) } else { 0 };
        let (addr, next, len) = queues[qi];
        label_entries.push((addr, next));
        if next + 1 == len {
            queues.remove(qi);
        } else {
            queues[qi].1 += 1;
        }
    }
    {
        let sorted: Vec<(usize, usize)> = {
            let mut s = label_entries.clone();
            s.sort();
            s
        };
        info.labels_permuted = sorted != label_entries;
    }
    let use_index_label: HashMap<(usize, usize), usize> = uses
        .iter()
        .enumerate()
        .filter_map(|(i, (u, _))| match u {
            Use::Label(a_, k) => Some(((*a_, *k), i)),
            _ => None,
        })
        .collect();
    let use_index_cell: HashMap<usize, usize> = uses
        .iter()
        .enumerate()
        .filter_map(|(i, (u, _))| match u {
            Use::Cell(c) => Some((*c, i)),
            _ => None,
        })
        .collect();
    // --- pointer table
    let mut ptr_tab: Vec<usize> = a.ptrs.keys().copied().chain(a.text.keys().copied()).collect();
    let canonical_ptr = ptr_tab.clone();
    match rng.below(3) {
        0 => {}
        1 => rng.shuffle(&mut ptr_tab),
        _ => {
            // string pointers first
            ptr_tab = a.text.keys().copied().chain(a.ptrs.keys().copied()).collect();
            if !a.text.is_empty() && !a.ptrs.is_empty() {
                info.strings_before_internal = true;
            }
        }
    }
    info.ptr_permuted = ptr_tab != canonical_ptr;
    let text_start = a.size() + 4 * ptr_tab.len() + 8 * label_entries.len();
    let mut data = a.data.clone();
    for (cell, tgt) in &a.ptrs {
        set32(&mut data, *cell, *tgt as u32, be);
    }
    for cell in a.text.keys() {
        let ui = use_index_cell[cell];
        set32(&mut data, *cell, (text_start + text_off_of_use[ui]) as u32, be);
    }
    let total = 0x20 + data.len() + 4 * ptr_tab.len() + 8 * label_entries.len() + text.len();
    let mut out = Vec::with_capacity(total);
    put32(&mut out, total as u32, be);
    put32(&mut out, data.len() as u32, be);
    put32(&mut out, ptr_tab.len() as u32, be);
    put32(&mut out, label_entries.len() as u32, be);
    out.resize(0x20, 0);
    out.extend(&data);
    for p in &ptr_tab {
        put32(&mut out, *p as u32, be);
    }
    for (addr, k) in &label_entries {
        put32(&mut out, *addr as u32, be);
        put32(&mut out, text_off_of_use[use_index_label[&(*addr, *k)]] as u32, be);
    }
    out.extend(&text);
    (out, info)
}

#[derive(Debug, Clone)]
pub struct Parsed {
    pub arch: RefArchive,
    pub data_size: usize,
    pub ptr_table: Vec<u32>,
    pub label_table: Vec<(u32, u32)>,
    pub text_start: usize, // relative to 0x20
    /// (offset in text section, decoded string) for every referenced string, in file order
    pub text_offsets_used: BTreeMap<usize, String>,
}

fn read_cstr(bytes: &[u8], at: usize) -> Option<&[u8]> {
    if at > bytes.len() {
        return None;
    }
    let rest = &bytes[at..];
    let n = rest.iter().position(|b| *b == 0)?;
    Some(&rest[..n])
}

/// Strict reader: every total exact, every entry in range, every string terminated in the file.
pub fn parse_strict(bytes: &[u8], be: bool) -> Result<Parsed, String> {
    if bytes.len() < 0x20 {
        return Err("shorter than the 0x20-byte header".into());
    }
    let file_size = get32(bytes, 0, be).unwrap() as u64;
    let data_size = get32(bytes, 4, be).unwrap() as u64;
    let nptr = get32(bytes, 8, be).unwrap() as u64;
    let nlab = get32(bytes, 12, be).unwrap() as u64;
    if file_size != bytes.len() as u64 {
        return Err(format!("header file size {} != actual {}", file_size, bytes.len()));
    }
    if bytes[0x10..0x20].iter().any(|b| *b != 0) {
        return Err("header padding 0x10..0x20 not zero".into());
    }
    let text_start = data_size + 4 * nptr + 8 * nlab;
    if 0x20 + text_start > bytes.len() as u64 {
        return Err(format!(
            "header declares data {} + {} pointers + {} labels, beyond file of {} bytes",
            data_size,
            nptr,
            nlab,
            bytes.len()
        ));
    }
    let data_size = data_size as usize;
    let text_start = text_start as usize;
    let mut arch = RefArchive::new(be);
    arch.data = bytes[0x20..0x20 + data_size].to_vec();
    let ptab = 0x20 + data_size;
    let ltab = ptab + 4 * nptr as usize;
    let mut ptr_table = Vec::new();
    let mut used: BTreeMap<usize, String> = BTreeMap::new();
    for i in 0..nptr as usize {
        let cell = get32(bytes, ptab + 4 * i, be).unwrap() as usize;
        ptr_table.push(cell as u32);
        if cell % 4 != 0 {
            return Err(format!("pointer table entry {} = {:#x} not cell-aligned", i, cell));
        }
        if cell + 4 > data_size {
            return Err(format!("pointer table entry {} = {:#x} outside data of {}", i, cell, data_size));
        }
        if arch.text.contains_key(&cell) || arch.ptrs.contains_key(&cell) {
            return Err(format!("pointer table lists cell {:#x} twice", cell));
        }
        let v = get32(&arch.data, cell, be).unwrap() as usize;
        if v <= data_size {
            arch.ptrs.insert(cell, v);
        } else {
            if v < text_start {
                return Err(format!(
                    "cell {:#x} points to {:#x}: inside the tables, neither data nor text",
                    cell, v
                ));
            }
            let raw = read_cstr(bytes, 0x20 + v)
                .ok_or_else(|| format!("string of cell {:#x} at {:#x} not terminated inside the file", cell, v))?;
            let (s, err) = sjis_decode(raw);
            if err {
                return Err(format!("string of cell {:#x} is not valid Shift-JIS", cell));
            }
            used.insert(v - text_start, s.clone());
            arch.text.insert(cell, s);
        }
    }
    let mut label_table = Vec::new();
    for i in 0..nlab as usize {
        let addr = get32(bytes, ltab + 8 * i, be).unwrap() as usize;
        let off = get32(bytes, ltab + 8 * i + 4, be).unwrap() as usize;
        label_table.push((addr as u32, off as u32));
        if addr > data_size {
            return Err(format!("label entry {} address {:#x} beyond data of {}", i, addr, data_size));
        }
        let raw = read_cstr(bytes, 0x20 + text_start + off)
            .ok_or_else(|| format!("label entry {} name at text offset {:#x} not terminated inside the file", i, off))?;
        let (s, err) = sjis_decode(raw);
        if err {
            return Err(format!("label entry {} name is not valid Shift-JIS", i));
        }
        used.insert(off, s.clone());
        arch.labels.entry(addr).or_default().push(s);
    }
    Ok(Parsed {
        arch,
        data_size,
        ptr_table,
        label_table,
        text_start,
        text_offsets_used: used,
    })
}
