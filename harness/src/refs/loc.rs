//! Localisation table typed in from the statement of C14 (DESIGN §4.9). String splitting only.
use mila::{Game, Language};

#[derive(Clone, Copy, Debug, PartialEq)]
pub enum Marker {
    Dir(&'static str),
    Prefix(&'static str),
    None,
    Unsupported,
}

pub const LANGS: [Language; 8] = [
    Language::EnglishNA,
    Language::EnglishEU,
    Language::Japanese,
    Language::Spanish,
    Language::French,
    Language::German,
    Language::Italian,
    Language::Dutch,
];

pub fn lang_name(l: Language) -> &'static str {
    match l {
        Language::EnglishNA => "EnglishNA",
        Language::EnglishEU => "EnglishEU",
        Language::Japanese => "Japanese",
        Language::Spanish => "Spanish",
        Language::French => "French",
        Language::German => "German",
        Language::Italian => "Italian",
        Language::Dutch => "Dutch",
    }
}

fn col(l: Language) -> usize {
    match l {
        Language::EnglishNA => 0,
        Language::EnglishEU => 1,
        Language::Japanese => 2,
        Language::Spanish => 3,
        Language::French => 4,
        Language::German => 5,
        Language::Italian => 6,
        Language::Dutch => 7,
    }
}

#[derive(Clone, Copy, Debug, PartialEq, Eq)]
pub enum Loc {
    NoOp,
    FE9,
    FE10,
    FE13,
    FE14,
    FE15,
}
pub const LOCS: [Loc; 6] = [Loc::NoOp, Loc::FE9, Loc::FE10, Loc::FE13, Loc::FE14, Loc::FE15];

pub fn loc_of_game(g: Game) -> Option<Loc> {
    match g {
        Game::FE9 => Some(Loc::FE9),
        Game::FE10 => Some(Loc::FE10),
        Game::FE13 => Some(Loc::FE13),
        Game::FE14 => Some(Loc::FE14),
        Game::FE15 => Some(Loc::FE15),
        _ => None,
    }
}

use Marker::{Dir, None as No, Prefix, Unsupported as X};
//                               EnglishNA        EnglishEU        Japanese  Spanish          French           German           Italian          Dutch
const FE13: [Marker; 8] = [Dir("E"), Dir("U"), No, Dir("S"), Dir("F"), Dir("G"), Dir("I"), X];
const FE14: [Marker; 8] = [Dir("@E"), Dir("@U"), No, Dir("@S"), Dir("@F"), Dir("@G"), Dir("@I"), X];
const FE15: [Marker; 8] = [Dir("@NOA_EN"), Dir("@NOE_EN"), Dir("@J"), Dir("@NOE_SP"), Dir("@NOE_FR"), Dir("@NOE_GE"), Dir("@NOE_IT"), Dir("@NOE_DU")];
const FE10: [Marker; 8] = [Prefix("e_"), Prefix("e_"), No, Prefix("s_"), Prefix("f_"), Prefix("d_"), Prefix("i_"), X];
const FE9: [Marker; 8] = [No, No, No, Prefix("s_"), Prefix("f_"), Prefix("d_"), Prefix("i_"), X];

pub fn marker(loc: Loc, lang: Language) -> Marker {
    let c = col(lang);
    match loc {
        Loc::NoOp => Marker::None,
        Loc::FE9 => FE9[c],
        Loc::FE10 => FE10[c],
        Loc::FE13 => FE13[c],
        Loc::FE14 => FE14[c],
        Loc::FE15 => FE15[c],
    }
}

#[derive(Debug, PartialEq, Clone)]
pub enum Expected {
    Path(String),
    Err,
}

/// Expected localisation of a relative path made of plain components (optionally with one
/// trailing slash). Degenerate paths (no final component) must be reported as errors.
pub fn localize(loc: Loc, lang: Language, path: &str) -> Expected {
    if loc == Loc::NoOp {
        return Expected::Path(path.to_string());
    }
    let m = marker(loc, lang);
    if m == Marker::Unsupported {
        return Expected::Err;
    }
    let p = path.strip_suffix('/').unwrap_or(path);
    if p.is_empty() || p.split('/').any(|c| c.is_empty() || c == "." || c == "..") {
        return Expected::Err;
    }
    match p.rfind('/') {
        None => Expected::Path(match m {
            Marker::Dir(d) => format!("{}/{}/", p, d),
            Marker::Prefix(x) => format!("{}/{}", p, x),
            _ => format!("{}/", p),
        }),
        Some(i) => {
            let (dir, file) = (&p[..i], &p[i + 1..]);
            Expected::Path(match m {
                Marker::Dir(d) => format!("{}/{}/{}", dir, d, file),
                Marker::Prefix(x) => format!("{}/{}{}", dir, x, file),
                _ => format!("{}/{}", dir, file),
            })
        }
    }
}

#[derive(Clone, Copy, Debug, PartialEq)]
pub struct GameCfg {
    pub be: bool,
    pub unicode: bool,
    pub lz13: bool,
}

/// codec configuration per game, from the statement of C12
pub fn game_cfg(g: Game) -> Option<GameCfg> {
    match g {
        Game::FE9 | Game::FE10 => Some(GameCfg { be: true, unicode: false, lz13: false }),
        Game::FE13 | Game::FE14 | Game::FE15 => Some(GameCfg { be: false, unicode: true, lz13: true }),
        _ => None,
    }
}

pub fn compressed_suffix(cfg: &GameCfg, path: &str) -> bool {
    if cfg.lz13 {
        path.ends_with(".lz")
    } else {
        path.ends_with(".cmp") || path.ends_with(".cms")
    }
}
