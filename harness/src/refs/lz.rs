//! Independent LZ10 / LZ11 reference: token-level expander + validator + classifier (DESIGN §4.4)
//! and token encoder (§4.5). Written from the GBATEK description of the formats; no mila code.
use crate::prng::Rng;

#[derive(Clone, Copy, Debug, PartialEq, Eq)]
pub enum Tok {
    Lit(u8),
    /// back-reference: length, displacement (1 = previous byte)
    Ref(usize, usize),
}

#[derive(Clone, Copy, Debug, PartialEq, Eq)]
pub enum Class {
    Conforming,
    Empty,
    ShortHeader,
    UnknownType,
    Truncated,
    BackrefBeforeStart,
    LengthOvershoot,
    TrailingBytes,
}

impl Class {
    pub fn name(self) -> &'static str {
        match self {
            Class::Conforming => "conforming",
            Class::Empty => "empty",
            Class::ShortHeader => "short_header",
            Class::UnknownType => "unknown_type",
            Class::Truncated => "truncated",
            Class::BackrefBeforeStart => "backref_before_start",
            Class::LengthOvershoot => "length_overshoot",
            Class::TrailingBytes => "trailing_bytes",
        }
    }
    /// classes for which C11 demands an error
    pub fn must_err(self) -> bool {
        matches!(self, Class::Empty | Class::ShortHeader | Class::UnknownType | Class::Truncated | Class::BackrefBeforeStart)
    }
}

#[derive(Clone, Debug)]
pub struct Expanded {
    pub kind: u8,
    pub declared: usize,
    pub header_len: usize,
    pub tokens: Vec<Tok>,
    pub out: Vec<u8>,
    pub consumed: usize,
    pub class: Class,
    /// index of the first offending token, if any
    pub bad_token: Option<usize>,
    pub forms: [u64; 4], // refs per form: [lz10 2-byte, lz11 2-byte, lz11 3-byte, lz11 4-byte]
}

/// Expand a bare LZ10 (0x10) or LZ11 (0x11) stream token by token.
/// `limit`: refuse to produce more than this many bytes (keeps hostile declared lengths cheap).
pub fn expand(s: &[u8], limit: usize) -> Expanded {
    let mut e = Expanded {
        kind: 0,
        declared: 0,
        header_len: 0,
        tokens: Vec::new(),
        out: Vec::new(),
        consumed: 0,
        class: Class::Conforming,
        bad_token: None,
        forms: [0; 4],
    };
    if s.is_empty() {
        e.class = Class::Empty;
        return e;
    }
    if s.len() < 4 {
        e.class = Class::ShortHeader;
        return e;
    }
    e.kind = s[0];
    if e.kind != 0x10 && e.kind != 0x11 {
        e.class = Class::UnknownType;
        return e;
    }
    let mut declared = s[1] as usize | (s[2] as usize) << 8 | (s[3] as usize) << 16;
    let mut p = 4usize;
    if declared == 0 && e.kind == 0x11 {
        if s.len() < 8 {
            e.class = Class::ShortHeader;
            return e;
        }
        declared = u32::from_le_bytes([s[4], s[5], s[6], s[7]]) as usize;
        p = 8;
    }
    e.declared = declared;
    e.header_len = p;
    let target = declared.min(limit);
    'outer: while e.out.len() < target {
        if p >= s.len() {
            e.class = Class::Truncated;
            break;
        }
        let flags = s[p];
        p += 1;
        for bit in (0..8).rev() {
            if e.out.len() >= target {
                break;
            }
            if (flags >> bit) & 1 == 0 {
                if p >= s.len() {
                    e.class = Class::Truncated;
                    break 'outer;
                }
                e.tokens.push(Tok::Lit(s[p]));
                e.out.push(s[p]);
                p += 1;
            } else {
                let need = |n: usize| p + n <= s.len();
                let (len, disp, used, form) = if e.kind == 0x10 {
                    if !need(2) {
                        e.class = Class::Truncated;
                        break 'outer;
                    }
                    (((s[p] >> 4) as usize) + 3, (((s[p] & 0xF) as usize) << 8 | s[p + 1] as usize) + 1, 2, 0)
                } else {
                    if !need(1) {
                        e.class = Class::Truncated;
                        break 'outer;
                    }
                    match s[p] >> 4 {
                        0 => {
                            if !need(3) {
                                e.class = Class::Truncated;
                                break 'outer;
                            }
                            (
                                (((s[p] & 0xF) as usize) << 4 | (s[p + 1] >> 4) as usize) + 0x11,
                                (((s[p + 1] & 0xF) as usize) << 8 | s[p + 2] as usize) + 1,
                                3,
                                2,
                            )
                        }
                        1 => {
                            if !need(4) {
                                e.class = Class::Truncated;
                                break 'outer;
                            }
                            (
                                (((s[p] & 0xF) as usize) << 12 | (s[p + 1] as usize) << 4 | (s[p + 2] >> 4) as usize) + 0x111,
                                (((s[p + 2] & 0xF) as usize) << 8 | s[p + 3] as usize) + 1,
                                4,
                                3,
                            )
                        }
                        ind => {
                            if !need(2) {
                                e.class = Class::Truncated;
                                break 'outer;
                            }
                            (ind as usize + 1, (((s[p] & 0xF) as usize) << 8 | s[p + 1] as usize) + 1, 2, 1)
                        }
                    }
                };
                p += used;
                e.forms[form] += 1;
                e.tokens.push(Tok::Ref(len, disp));
                if disp > e.out.len() {
                    e.class = Class::BackrefBeforeStart;
                    e.bad_token = Some(e.tokens.len() - 1);
                    break 'outer;
                }
                if e.out.len() + len > declared {
                    if e.class == Class::Conforming {
                        e.class = Class::LengthOvershoot;
                        e.bad_token = Some(e.tokens.len() - 1);
                    }
                }
                for _ in 0..len {
                    let b = e.out[e.out.len() - disp];
                    e.out.push(b);
                    if e.out.len() >= limit.max(declared) + 70000 {
                        break;
                    }
                }
            }
        }
    }
    e.consumed = p;
    if e.class == Class::Conforming && p < s.len() {
        e.class = Class::TrailingBytes;
    }
    e
}

#[derive(Clone, Copy, Debug, PartialEq, Eq)]
pub enum Kind {
    Lz10,
    Lz11,
}

pub fn ref_len_range(kind: Kind) -> (usize, usize) {
    match kind {
        Kind::Lz10 => (3, 18),
        Kind::Lz11 => (3, 65808),
    }
}

/// Encode a token sequence (must be legal for `kind`) as a bare stream declaring `total` bytes.
pub fn encode(kind: Kind, tokens: &[Tok], total: usize) -> Vec<u8> {
    encode_ext(kind, tokens, total, false)
}

/// `extended`: for LZ11, use the extended-size header (zero 24-bit size followed by a 32-bit size)
/// even when the size would fit in 24 bits - legal, and what an encoder for large files emits.
pub fn encode_ext(kind: Kind, tokens: &[Tok], total: usize, extended: bool) -> Vec<u8> {
    let mut out = Vec::new();
    out.push(if kind == Kind::Lz10 { 0x10 } else { 0x11 });
    if kind == Kind::Lz11 && (total == 0 || total >= 1 << 24 || extended) {
        out.extend_from_slice(&[0, 0, 0]);
        out.extend_from_slice(&(total as u32).to_le_bytes());
    } else {
        out.push(total as u8);
        out.push((total >> 8) as u8);
        out.push((total >> 16) as u8);
    }
    let mut i = 0;
    while i < tokens.len() {
        let group = &tokens[i..(i + 8).min(tokens.len())];
        let mut flags = 0u8;
        let mut body = Vec::new();
        for (k, t) in group.iter().enumerate() {
            match *t {
                Tok::Lit(b) => body.push(b),
                Tok::Ref(len, disp) => {
                    flags |= 1 << (7 - k);
                    let d = disp - 1;
                    match kind {
                        Kind::Lz10 => {
                            assert!((3..=18).contains(&len) && d < 4096);
                            body.push((((len - 3) as u8) << 4) | (d >> 8) as u8);
                            body.push(d as u8);
                        }
                        Kind::Lz11 => {
                            assert!((3..=65808).contains(&len) && d < 4096);
                            if len <= 16 {
                                body.push((((len - 1) as u8) << 4) | (d >> 8) as u8);
                                body.push(d as u8);
                            } else if len <= 272 {
                                let l = len - 0x11;
                                body.push((l >> 4) as u8);
                                body.push((((l & 0xF) as u8) << 4) | (d >> 8) as u8);
                                body.push(d as u8);
                            } else {
                                let l = len - 0x111;
                                body.push(0x10 | (l >> 12) as u8);
                                body.push((l >> 4) as u8);
                                body.push((((l & 0xF) as u8) << 4) | (d >> 8) as u8);
                                body.push(d as u8);
                            }
                        }
                    }
                }
            }
        }
        out.push(flags);
        out.extend(body);
        i += 8;
    }
    out
}

pub fn wrap13(inner: &[u8]) -> Vec<u8> {
    let n = inner.len();
    let mut v = vec![0x13, n as u8, (n >> 8) as u8, (n >> 16) as u8];
    v.extend_from_slice(inner);
    v
}

pub fn stored(data: &[u8]) -> Vec<u8> {
    let n = data.len();
    let mut v = vec![0x00, n as u8, (n >> 8) as u8, (n >> 16) as u8];
    v.extend_from_slice(data);
    v
}

/// Random legal token sequence and the data it encodes. `max_out`: approximate output size.
pub fn gen_tokens(rng: &mut Rng, kind: Kind, max_out: usize) -> (Vec<Tok>, Vec<u8>) {
    let mut toks = Vec::new();
    let mut out: Vec<u8> = Vec::new();
    let target = rng.range(0, max_out);
    let ref_rate = rng.range(0, 9); // of 10
    let (lo, hi) = ref_len_range(kind);
    while out.len() < target {
        if !out.is_empty() && rng.below(10) < ref_rate {
            let maxd = out.len().min(4096);
            let disp = match rng.below(8) {
                0 => 1,
                1 => 2.min(maxd),
                2 => maxd,             // reach the very first byte / window edge
                3 => 4096.min(maxd),
                _ => rng.range(1, maxd),
            };
            let len = match rng.below(10) {
                0 => lo,
                1 => hi.min(if kind == Kind::Lz10 { 18 } else { 16 }),
                2 if kind == Kind::Lz11 => *rng.pick(&[16usize, 17, 272, 273, 274, 4095, 4096, 4097]),
                3 if kind == Kind::Lz11 && max_out > 70000 => *rng.pick(&[65808usize, 65807, 30000]),
                // 4-byte form with a non-zero top nibble (length >= 0x1111); later references then
                // reach back across a long copy
                3 if kind == Kind::Lz11 && !cfg!(miri) && max_out >= 250 => *rng.pick(&[0x1111usize, 0x1112, 5000, 8209, 0x2111]),
                4 => disp.clamp(lo, hi),          // disp == len
                5 => (disp + 1).clamp(lo, hi),    // overlapping copy
                _ => rng.range(lo, if kind == Kind::Lz10 { 18 } else { 40 }),
            };
            toks.push(Tok::Ref(len, disp));
            for _ in 0..len {
                let b = out[out.len() - disp];
                out.push(b);
            }
        } else {
            let b = if rng.chance(1, 3) { rng.below(4) as u8 } else { rng.u8() };
            toks.push(Tok::Lit(b));
            out.push(b);
        }
    }
    (toks, out)
}
