pub mod archive;
pub mod image;
pub mod strings;
pub mod text;
pub mod lz;
pub mod containers;
pub mod loc;
