pub mod archive;
pub mod image;
pub mod strings;
