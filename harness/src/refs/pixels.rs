//! Pixel references (DESIGN §4.11): Morton order by bit de-interleaving, per-channel linear
//! expansion with tolerance, ETC1 from the Khronos specification (on the big-endian block),
//! RGB5A3, CI8 8x4 block order. None of this looks at mila's tables.

#[derive(Clone, Copy, Debug, PartialEq, Eq)]
pub enum Fmt {
    Rgba8,
    Rgba5551,
    Rgb565,
    Rgba4,
    La8,
    L8,
    A8,
    Etc1,
    Etc1A4,
}
pub const FMTS: [Fmt; 9] = [Fmt::Rgba8, Fmt::Rgba5551, Fmt::Rgb565, Fmt::Rgba4, Fmt::La8, Fmt::L8, Fmt::A8, Fmt::Etc1, Fmt::Etc1A4];

impl Fmt {
    /// the 3DS pixel-format code used by CTPK / BCH / CGFX
    pub fn code(self) -> u32 {
        match self {
            Fmt::Rgba8 => 0,
            Fmt::Rgba5551 => 2,
            Fmt::Rgb565 => 3,
            Fmt::Rgba4 => 4,
            Fmt::La8 => 5,
            Fmt::L8 => 7,
            Fmt::A8 => 8,
            Fmt::Etc1 => 12,
            Fmt::Etc1A4 => 13,
        }
    }
    /// payload size in bytes for w x h
    pub fn payload_len(self, w: usize, h: usize) -> usize {
        match self {
            Fmt::Rgba8 => 4 * w * h,
            Fmt::Rgba5551 | Fmt::Rgb565 | Fmt::Rgba4 | Fmt::La8 => 2 * w * h,
            Fmt::L8 | Fmt::A8 | Fmt::Etc1A4 => w * h,
            Fmt::Etc1 => w * h / 2,
        }
    }
    pub fn bytes_per_sample(self) -> usize {
        match self {
            Fmt::Rgba8 => 4,
            Fmt::Rgba5551 | Fmt::Rgb565 | Fmt::Rgba4 | Fmt::La8 => 2,
            _ => 1,
        }
    }
    pub fn name(self) -> &'static str {
        match self {
            Fmt::Rgba8 => "RGBA8",
            Fmt::Rgba5551 => "RGBA5551",
            Fmt::Rgb565 => "RGB565",
            Fmt::Rgba4 => "RGBA4",
            Fmt::La8 => "LA8",
            Fmt::L8 => "L8",
            Fmt::A8 => "A8",
            Fmt::Etc1 => "ETC1",
            Fmt::Etc1A4 => "ETC1A4",
        }
    }
}

/// index of the sample holding pixel (x, y) in a w-wide image stored as 8x8 Z-order tiles
pub fn morton_sample_index(x: usize, y: usize, w: usize) -> usize {
    let tile = (y / 8) * (w / 8) + (x / 8);
    let (tx, ty) = (x % 8, y % 8);
    let mut m = 0;
    for b in 0..3 {
        m |= ((tx >> b) & 1) << (2 * b);
        m |= ((ty >> b) & 1) << (2 * b + 1);
    }
    tile * 64 + m
}

/// one channel: (expected value by linear expansion, tolerance = one quantisation step, rounded up)
#[derive(Clone, Copy, Debug)]
pub struct Chan {
    pub exp: f64,
    pub tol: f64,
}
fn chan(v: u32, bits: u32) -> Chan {
    if bits == 8 {
        return Chan { exp: v as f64, tol: 0.0 };
    }
    if bits == 1 {
        return Chan { exp: if v != 0 { 255.0 } else { 0.0 }, tol: 0.0 };
    }
    let max = ((1u32 << bits) - 1) as f64;
    Chan { exp: (v as f64 * 255.0 / max).round(), tol: 255.0 / max }
}
fn exact(v: u32) -> Chan {
    Chan { exp: v as f64, tol: 0.0 }
}

/// expected RGBA of one sample (little-endian value) of a non-ETC 3DS format
pub fn expect_sample(f: Fmt, v: u32) -> [Chan; 4] {
    match f {
        Fmt::Rgba8 => [exact(v >> 24), exact((v >> 16) & 0xFF), exact((v >> 8) & 0xFF), exact(v & 0xFF)],
        Fmt::Rgba5551 => [chan((v >> 11) & 0x1F, 5), chan((v >> 6) & 0x1F, 5), chan((v >> 1) & 0x1F, 5), chan(v & 1, 1)],
        Fmt::Rgb565 => [chan((v >> 11) & 0x1F, 5), chan((v >> 5) & 0x3F, 6), chan(v & 0x1F, 5), exact(255)],
        Fmt::Rgba4 => [chan((v >> 12) & 0xF, 4), chan((v >> 8) & 0xF, 4), chan((v >> 4) & 0xF, 4), chan(v & 0xF, 4)],
        Fmt::La8 => {
            let l = (v >> 8) & 0xFF;
            [exact(l), exact(l), exact(l), exact(v & 0xFF)]
        }
        Fmt::L8 => [exact(v & 0xFF), exact(v & 0xFF), exact(v & 0xFF), exact(255)],
        Fmt::A8 => [exact(255), exact(255), exact(255), exact(v & 0xFF)],
        _ => unreachable!(),
    }
}

pub fn within(c: Chan, got: u8) -> bool {
    (got as f64 - c.exp).abs() <= c.tol + 1e-9
}

// ------------------------------------------------------------------------------------------ ETC1

const ETC1_MOD: [[i32; 2]; 8] = [[2, 8], [5, 17], [9, 29], [13, 42], [18, 60], [24, 80], [33, 106], [47, 183]];

fn sext3(v: u32) -> i32 {
    if v & 4 != 0 {
        v as i32 - 8
    } else {
        v as i32
    }
}
fn clamp255(v: i32) -> u8 {
    v.max(0).min(255) as u8
}

/// Decode one ETC1 block given in the standard (big-endian) byte order of the specification.
/// Returns RGB for the 16 pixels indexed [y][x], or None when a differential base+delta leaves
/// 0..=31 (undefined by the ETC1 rules).
pub fn etc1_block_be(b: &[u8; 8]) -> Option<[[[u8; 3]; 4]; 4]> {
    let diff = b[3] & 2 != 0;
    let flip = b[3] & 1 != 0;
    let cw1 = ((b[3] >> 5) & 7) as usize;
    let cw2 = ((b[3] >> 2) & 7) as usize;
    let mut base = [[0i32; 3]; 2];
    for ch in 0..3 {
        let byte = b[ch] as u32;
        if diff {
            let c1 = byte >> 3;
            let d = sext3(byte & 7);
            let c2 = c1 as i32 + d;
            if !(0..=31).contains(&c2) {
                return None;
            }
            let c2 = c2 as u32;
            base[0][ch] = ((c1 << 3) | (c1 >> 2)) as i32;
            base[1][ch] = ((c2 << 3) | (c2 >> 2)) as i32;
        } else {
            let c1 = byte >> 4;
            let c2 = byte & 0xF;
            base[0][ch] = (c1 * 17) as i32;
            base[1][ch] = (c2 * 17) as i32;
        }
    }
    let msb = u16::from_be_bytes([b[4], b[5]]) as u32;
    let lsb = u16::from_be_bytes([b[6], b[7]]) as u32;
    let mut out = [[[0u8; 3]; 4]; 4];
    for x in 0..4 {
        for y in 0..4 {
            let i = x * 4 + y; // pixels a..p run down the columns
            let sub = if flip { (y >= 2) as usize } else { (x >= 2) as usize };
            let cw = if sub == 0 { cw1 } else { cw2 };
            let large = (lsb >> i) & 1;
            let neg = (msb >> i) & 1;
            let mut m = ETC1_MOD[cw][large as usize];
            if neg == 1 {
                m = -m;
            }
            for ch in 0..3 {
                out[y][x][ch] = clamp255(base[sub][ch] + m);
            }
        }
    }
    Some(out)
}

/// Reference decode of a 3DS ETC1 / ETC1A4 payload: returns RGBA bytes (row-major) or None if any
/// block is outside the defined range. Blocks are stored as little-endian u64 words (i.e. the
/// specification's block with its 8 bytes reversed), four blocks per 8x8 tile in Z order.
pub fn etc1_image(payload: &[u8], w: usize, h: usize, alpha: bool) -> Option<Vec<u8>> {
    let mut out = vec![0u8; 4 * w * h];
    let bsize = if alpha { 16 } else { 8 };
    let mut pos = 0;
    for ty in 0..h / 8 {
        for tx in 0..w / 8 {
            for by in 0..2 {
                for bx in 0..2 {
                    let blk = &payload[pos..pos + bsize];
                    pos += bsize;
                    let (al, col) = if alpha { (Some(&blk[0..8]), &blk[8..16]) } else { (None, &blk[0..8]) };
                    let mut be = [0u8; 8];
                    for i in 0..8 {
                        be[i] = col[7 - i];
                    }
                    let px = etc1_block_be(&be)?;
                    let aword = al.map(|a| u64::from_le_bytes([a[0], a[1], a[2], a[3], a[4], a[5], a[6], a[7]]));
                    for y in 0..4 {
                        for x in 0..4 {
                            let gx = tx * 8 + bx * 4 + x;
                            let gy = ty * 8 + by * 4 + y;
                            let o = (gy * w + gx) * 4;
                            out[o..o + 3].copy_from_slice(&px[y][x]);
                            out[o + 3] = match aword {
                                Some(a) => (((a >> ((x * 4 + y) * 4)) & 0xF) as u8) * 17,
                                None => 255,
                            };
                        }
                    }
                }
            }
        }
    }
    Some(out)
}

/// Build the 8 stored (little-endian) bytes of an ETC1 colour block from its fields.
pub fn etc1_make_block(diff: bool, flip: bool, cw1: u8, cw2: u8, rgb: [u8; 3], msb: u16, lsb: u16) -> [u8; 8] {
    // rgb: per channel the specification's byte (individual: c1<<4|c2, differential: c1<<3|delta&7)
    let be = [rgb[0], rgb[1], rgb[2], (cw1 << 5) | (cw2 << 2) | ((diff as u8) << 1) | flip as u8, (msb >> 8) as u8, msb as u8, (lsb >> 8) as u8, lsb as u8];
    let mut le = [0u8; 8];
    for i in 0..8 {
        le[i] = be[7 - i];
    }
    le
}

// ---------------------------------------------------------------------------------------- RGB5A3

pub fn expect_rgb5a3(v: u16) -> [Chan; 4] {
    let v = v as u32;
    if v & 0x8000 != 0 {
        [chan((v >> 10) & 0x1F, 5), chan((v >> 5) & 0x1F, 5), chan(v & 0x1F, 5), exact(255)]
    } else {
        [chan((v >> 8) & 0xF, 4), chan((v >> 4) & 0xF, 4), chan(v & 0xF, 4), chan((v >> 12) & 7, 3)]
    }
}

/// offset of pixel (x, y) in a CI8 image stored as 8x4 blocks (aligned width aw)
pub fn ci8_offset(x: usize, y: usize, aw: usize) -> usize {
    let blocks_per_row = aw / 8;
    let block = (y / 4) * blocks_per_row + (x / 8);
    block * 32 + (y % 4) * 8 + (x % 8)
}
