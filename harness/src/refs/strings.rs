//! String domains shared by the workloads. The Shift-JIS domain is exactly the one the
//! properties quantify over: NUL-free, encodable, decodes back to itself, and none of the three
//! code points the codec folds (U+00A5, U+203E, U+2212).
use crate::prng::Rng;
use encoding_rs::SHIFT_JIS;
use std::sync::OnceLock;

pub fn sjis_encode(s: &str) -> Option<Vec<u8>> {
    let (b, _, err) = SHIFT_JIS.encode(s);
    if err {
        None
    } else {
        Some(b.into_owned())
    }
}

pub fn sjis_decode(b: &[u8]) -> (String, bool) {
    let (s, err) = SHIFT_JIS.decode_without_bom_handling(b);
    (s.into_owned(), err)
}

pub fn sjis_ok(s: &str) -> bool {
    if s.chars().any(|c| c == '\0' || c == '\u{a5}' || c == '\u{203e}' || c == '\u{2212}') {
        return false;
    }
    match sjis_encode(s) {
        None => false,
        Some(b) => {
            if b.contains(&0) {
                return false;
            }
            let (d, err) = sjis_decode(&b);
            !err && d == s
        }
    }
}

pub struct Pools {
    pub ascii: Vec<char>,
    pub kana: Vec<char>,
    pub kanji: Vec<char>,
    pub wide: Vec<char>,
    pub greek: Vec<char>,
    pub rejected: usize,
}

pub fn pools() -> &'static Pools {
    static P: OnceLock<Pools> = OnceLock::new();
    P.get_or_init(|| {
        let mut rejected = 0usize;
        let mut take = |lo: u32, hi: u32, step: u32| -> Vec<char> {
            let mut v = Vec::new();
            let mut c = lo;
            while c <= hi {
                if let Some(ch) = char::from_u32(c) {
                    let mut buf = [0u8; 4];
                    let s: &str = ch.encode_utf8(&mut buf);
                    if sjis_ok(s) {
                        v.push(ch);
                    } else {
                        rejected += 1;
                    }
                }
                c += step;
            }
            v
        };
        let small = cfg!(miri);
        let ascii = take(0x20, 0x7e, 1);
        let mut kana = take(0xff61, 0xff9f, if small { 9 } else { 1 });
        kana.extend(take(0x3041, 0x3093, if small { 11 } else { 1 }));
        kana.extend(take(0x30a1, 0x30f6, if small { 13 } else { 1 }));
        let mut kanji = take(0x4e00, 0x9fa0, if small { 1511 } else { 1 });
        kanji.extend(take(0xf900, 0xfa2d, if small { 61 } else { 1 })); // IBM-extension kanji (lead bytes 0xFA..0xFC)
        let mut wide = take(0xff01, 0xff5e, if small { 17 } else { 1 });
        wide.extend(take(0x3000, 0x3015, if small { 7 } else { 1 }));
        wide.extend(take(0x2010, 0x2312, if small { 97 } else { 1 }));
        wide.extend(take(0x0391, 0x0451, if small { 31 } else { 1 }));
        wide.extend(take(0x2460, 0x2473, if small { 7 } else { 1 }));
        wide.extend(take(0xffe0, 0xffe6, if small { 3 } else { 1 })); // fullwidth cent .. won signs, U+FFE3 among them
        wide.extend(take(0x2500, 0x254b, if small { 37 } else { 1 })); // box drawing
        wide.extend(take(0x2160, 0x217f, if small { 11 } else { 1 })); // Roman numerals (NEC / IBM rows)
        let mut greek = take(0x0391, 0x0451, if small { 13 } else { 1 });
        greek.extend(take(0x00a7, 0x00f7, if small { 9 } else { 1 }));
        Pools {
            ascii,
            kana,
            kanji,
            wide,
            greek,
            rejected,
        }
    })
}

/// A string from the Shift-JIS domain with `0..=max_chars` characters.
pub fn gen_sjis(rng: &mut Rng, max_chars: usize) -> String {
    // now and then a long string aimed at buffer-size boundaries (every caller's format allows
    // strings of any length); never under Miri, where the workloads are cut to the bone
    if !cfg!(miri) && max_chars >= 4 && rng.chance(1, 48) {
        return gen_sjis_boundary(rng);
    }
    if max_chars >= 2 && rng.chance(1, 40) {
        return gen_sjis_utf8_lookalike(rng, max_chars);
    }
    let p = pools();
    let n = rng.range(0, max_chars);
    let style = rng.below(7);
    let mut s = String::new();
    for _ in 0..n {
        let pool: &Vec<char> = match style {
            0 | 1 => &p.ascii,
            2 => {
                if rng.bool() {
                    &p.ascii
                } else {
                    &p.kana
                }
            }
            3 => &p.kanji,
            4 => match rng.below(4) {
                0 => &p.ascii,
                1 => &p.kana,
                2 => &p.kanji,
                _ => &p.wide,
            },
            5 => &p.wide,
            _ => {
                // two-byte-in-UTF-8 letters (Latin-1 symbols, Greek, Cyrillic) mixed with ASCII
                if rng.chance(2, 5) {
                    &p.ascii
                } else {
                    &p.greek
                }
            }
        };
        if pool.is_empty() {
            s.push('x');
        } else {
            s.push(*rng.pick(pool));
        }
    }
    if !s.is_empty() && rng.chance(1, 40) {
        // ends in a C0 control character / DEL (single bytes 01..1F, 7F: in the domain like any other)
        s.pop();
        s.push(*rng.pick(&['\u{1}', '\u{2}', '\t', '\u{1f}', '\u{7f}', '\u{80}']));
        if !sjis_ok(&s) {
            s.pop();
            s.push('\u{7f}');
        }
        if s.chars().count() >= 2 && rng.chance(1, 3) {
            let last = s.pop().unwrap();
            s.pop();
            s.push(last);
            s.push(last);
        }
    }
    debug_assert!(sjis_ok(&s));
    s
}

/// Shift-JIS-domain strings whose encoded bytes are, as a whole, also well-formed UTF-8 with a
/// multi-byte sequence: pairs of half-width katakana <C2..DF><A1..BF> between ASCII characters.
pub fn gen_sjis_utf8_lookalike(rng: &mut Rng, max_chars: usize) -> String {
    let p = pools();
    let mut s = String::new();
    let pairs = rng.range(1, (max_chars / 2).max(1).min(4));
    for _ in 0..pairs {
        if s.chars().count() + 2 < max_chars && rng.bool() {
            s.push(*rng.pick(&p.ascii));
        }
        let lead = 0xff61 + (rng.range(0xc2, 0xdf) as u32 - 0xa1);
        let trail = 0xff61 + (rng.range(0xa1, 0xbf) as u32 - 0xa1);
        s.push(char::from_u32(lead).unwrap());
        s.push(char::from_u32(trail).unwrap());
    }
    debug_assert!(sjis_ok(&s));
    debug_assert!(std::str::from_utf8(&sjis_encode(&s).unwrap()).is_ok());
    s
}

/// Long strings from the Shift-JIS domain built around the sizes at which chunked or fixed-buffer
/// string code changes behaviour: encoded lengths just below / at / above 64, 128, 256, 4096 bytes,
/// two-byte characters that start on an odd encoded offset (so that one of them straddles every
/// multiple of 64), runs of single-byte half-width katakana (1 byte in Shift-JIS, 3 in UTF-8),
/// and single-byte strings of 246..=257 bytes.
pub fn gen_sjis_boundary(rng: &mut Rng) -> String {
    let p = pools();
    let halfwidth: Vec<char> = p.kana.iter().copied().filter(|c| (0xff61..=0xff9f).contains(&(*c as u32))).collect();
    let two_byte: Vec<char> = p.kana.iter().copied().filter(|c| !(0xff61..=0xff9f).contains(&(*c as u32))).collect();
    let mut s = String::new();
    let ascii = |rng: &mut Rng, n: usize, s: &mut String| {
        for _ in 0..n {
            s.push(*rng.pick(&p.ascii));
        }
    };
    match rng.below(6) {
        0 | 1 => {
            // ASCII prefix so that the first two-byte character starts right at / around a boundary
            let pre = *rng.pick(&[0usize, 1, 2, 3, 61, 62, 63, 64, 65, 125, 126, 127, 128, 129, 253, 254, 255, 256, 257]);
            ascii(rng, pre, &mut s);
            let n = rng.range(1, 140);
            let pool = if rng.bool() { &two_byte } else { &p.kanji };
            for _ in 0..n {
                s.push(*rng.pick(pool));
            }
            let tail = rng.below(3);
            ascii(rng, tail, &mut s);
        }
        2 => {
            // one repeated two-byte character whose trail byte is itself in the lead-byte range
            let pre = rng.below(2);
            ascii(rng, pre, &mut s);
            let ch = *rng.pick(&['メ', 'ア', 'ム', '亜', 'ソ']);
            for _ in 0..rng.range(100, 300) {
                s.push(ch);
            }
        }
        3 => {
            // runs of half-width katakana (expand 1 -> 3 bytes when decoded to UTF-8)
            let n = rng.range(9, 80);
            for _ in 0..n {
                s.push(*rng.pick(&halfwidth));
            }
            let tail = rng.below(4);
            ascii(rng, tail, &mut s);
        }
        4 => {
            // single-byte strings just around 246..257 bytes
            let n = *rng.pick(&[245usize, 246, 247, 248, 254, 255, 256, 257, 258]);
            ascii(rng, n, &mut s);
        }
        _ => {
            // a few KiB: around 4096 encoded bytes, mixed widths
            let target = *rng.pick(&[4094usize, 4095, 4096, 4097, 4098, 8192, 8193]);
            let mut bytes = 0;
            while bytes < target {
                if bytes + 2 <= target && rng.bool() {
                    s.push(*rng.pick(&two_byte));
                    bytes += 2;
                } else {
                    s.push(*rng.pick(&p.ascii));
                    bytes += 1;
                }
            }
        }
    }
    debug_assert!(sjis_ok(&s));
    s
}

/// ASCII identifier-like string (labels, keys), 1..=max chars
pub fn gen_ident(rng: &mut Rng, max: usize) -> String {
    const A: &[u8] = b"ABCDEFGHIJKLMNOPQRSTUVWXYZabcdefghijklmnopqrstuvwxyz0123456789_";
    let n = rng.range(1, max.max(1));
    (0..n).map(|_| *rng.pick(A) as char).collect()
}

/// Non-empty Shift-JIS-domain string
pub fn gen_sjis_nonempty(rng: &mut Rng, max_chars: usize) -> String {
    loop {
        let s = gen_sjis(rng, max_chars.max(1));
        if !s.is_empty() {
            return s;
        }
    }
}

/// Arbitrary NUL-free Unicode text for the UTF-16 text-archive format.
pub fn gen_unicode(rng: &mut Rng, max_chars: usize) -> String {
    let n = rng.range(0, max_chars);
    let mut s = String::new();
    if rng.chance(1, 12) {
        // only code points below U+0100 (every UTF-16 unit has a zero high byte), some of them >= U+0080
        for _ in 0..n.max(1) {
            let c = if rng.bool() { rng.range(0x20, 0x7e) } else { rng.range(0x80, 0xff) } as u32;
            s.push(char::from_u32(c).unwrap());
        }
        return s;
    }
    if !cfg!(miri) && max_chars >= 8 && rng.chance(1, 60) {
        // long messages around the sizes where chunked UTF-16 code changes behaviour; an astral
        // character (two units) is placed so that it straddles the boundary in half of them
        let target = *rng.pick(&[255usize, 256, 257, 4095, 4096, 4097, 4098, 8192, 8193]);
        let astral_at = if rng.bool() { Some(target.saturating_sub(rng.range(0, 2))) } else { None };
        let mut units = 0;
        while units < target {
            if Some(units + 1) == astral_at && units + 2 <= target + 1 {
                s.push('\u{1F600}');
                units += 2;
            } else {
                let c = match rng.below(4) {
                    0 => rng.range(0x3041, 0x3093) as u32,
                    1 => rng.range(0xa1, 0xff) as u32,
                    _ => rng.range(0x20, 0x7e) as u32,
                };
                s.push(char::from_u32(c).unwrap());
                units += 1;
            }
        }
        return s;
    }
    const SPECIAL: &[u32] = &[
        0xFEFF, 0xFFFE, 0xFFFF, 0xBBEF, 0x00BF, 0xFFFD, 0x0301, 0x200D, 0x1F600, 0x10000,
        0x10FFFF, 0xD7FF, 0xE000, 0x0001, 0x007F, 0x0080, 0x00FF, 0x0100, 0x3042, 0x000A, 0x000D,
        0x005C, 0x2028, 0x2029, 0x0085, 0x000B, 0x000C, 0x0009, 0x001F,
    ];
    for i in 0..n {
        let c = match rng.below(8) {
            0 | 1 | 2 => rng.range(0x20, 0x7e) as u32,
            3 => *rng.pick(SPECIAL),
            4 => rng.range(1, 0xFFFF) as u32,
            5 => rng.range(0x10000, 0x10FFFF) as u32,
            6 => rng.range(0x3040, 0x30ff) as u32,
            _ => {
                if i == 0 {
                    *rng.pick(&SPECIAL[..5])
                } else {
                    rng.range(0x4e00, 0x9fff) as u32
                }
            }
        };
        match char::from_u32(c) {
            Some(ch) if ch != '\0' => s.push(ch),
            _ => s.push('?'),
        }
    }
    s
}

/// Pairs of distinct strings with equal hashes: the first under std's DefaultHasher (SipHash-1-3 with
/// zero keys, `str` hashing), the others under FxHash (rustc-hash, a dependency of the crate).
pub const COLLIDING_PAIRS: [(&str, &str); 6] = [
    ("vk3nsfgyjp_i9__k.bin", "6tt7pubcvhl_z6gd.bin"),
    ("li0irn45cicua", "3gl5njuk0ie2k"),
    ("MID_AAAAAAAAAAAA", "MID_AAAIZAAAAAAA"),
    ("MID_AAABDAAAAAAA", "MID_AAAJYAAAAAAA"),
    ("MID_AAACAAAAAAAA", "MID_AAAKTAAAAAAA"),
    ("MID_00319", "MID_00392"),
];

/// Text the Shift-JIS encoder cannot express at all (it reports an error rather than folding it):
/// a library call that must encode it has to fail; if it succeeds, the text must still come back
/// unchanged.
pub const UNENCODABLE: [&str; 6] = ["caf\u{e9}", "\u{1F600}", "\u{d55c}\u{ae00}", "na\u{ef}ve", "x\u{1F600}y", "\u{e9}"];

pub fn unencodable(s: &str) -> bool {
    sjis_encode(s).is_none()
}
