//! Reference builders for the texture containers CTPK, BCH, CGFX, TPL with random conforming
//! placement of tables, names and payloads (DESIGN §4.11). The builder records the byte range of
//! every payload so the truncation oracle of C20 knows which cuts must fail.
use super::strings::sjis_encode;
use crate::prng::Rng;

#[derive(Clone, Debug, PartialEq)]
pub struct Tex {
    pub name: String,
    pub width: usize,
    pub height: usize,
    pub format: u32, // 3DS pixel-format code (CTPK/BCH/CGFX); ignored for TPL
    pub payload: Vec<u8>,
    /// TPL only: palette entries (RGB5A3, big-endian u16 each)
    pub palette: Vec<u16>,
}

#[derive(Clone, Debug, Default)]
pub struct Built {
    pub bytes: Vec<u8>,
    /// [start, end) of every texture payload (and, for TPL, palette data)
    pub payload_ranges: Vec<(usize, usize)>,
    pub default_order: bool,
}

fn le32(v: &mut Vec<u8>, x: u32) {
    v.extend_from_slice(&x.to_le_bytes())
}
fn le16(v: &mut Vec<u8>, x: u16) {
    v.extend_from_slice(&x.to_le_bytes())
}
fn set_le32(v: &mut [u8], at: usize, x: u32) {
    v[at..at + 4].copy_from_slice(&x.to_le_bytes())
}
fn set_be32(v: &mut [u8], at: usize, x: u32) {
    v[at..at + 4].copy_from_slice(&x.to_be_bytes())
}

/// Append the sections in the given order (with optional filler between them); returns offsets.
fn place(img: &mut Vec<u8>, sections: &[&[u8]], order: &[usize], rng: &mut Rng, align: usize, filler: bool) -> Vec<usize> {
    let mut offs = vec![0usize; sections.len()];
    for &i in order {
        if filler && rng.chance(1, 3) {
            let n = rng.range(1, 24);
            img.extend(std::iter::repeat(0xEE).take(n));
        }
        while img.len() % align != 0 {
            img.push(0);
        }
        offs[i] = img.len();
        img.extend_from_slice(sections[i]);
    }
    offs
}

// ------------------------------------------------------------------------------------------ CTPK

pub fn ctpk(texs: &[Tex], rng: &mut Rng, shuffle: bool) -> Built {
    let n = texs.len();
    let mut img: Vec<u8> = Vec::new();
    le32(&mut img, 0x4B50_5443); // "CTPK"
    le16(&mut img, 1);
    le16(&mut img, n as u16);
    img.extend_from_slice(&[0; 16]); // texture_ptr, texture_length, hash_ptr, short_info_ptr (patched)
    img.extend_from_slice(&[0; 8]);
    let info_at = img.len();
    img.extend(std::iter::repeat(0).take(0x20 * n));
    // names area and data area, in either order
    let mut names: Vec<u8> = Vec::new();
    let mut name_off = vec![0usize; n];
    let mut norder: Vec<usize> = (0..n).collect();
    if shuffle {
        rng.shuffle(&mut norder);
    }
    for &i in &norder {
        name_off[i] = names.len();
        names.extend(sjis_encode(&texs[i].name).expect("name in Shift-JIS domain"));
        names.push(0);
    }
    let mut data: Vec<u8> = Vec::new();
    let mut data_off = vec![0usize; n];
    let mut dorder: Vec<usize> = (0..n).collect();
    if shuffle {
        rng.shuffle(&mut dorder);
    }
    for (k, &i) in dorder.iter().enumerate() {
        // identical payload bytes may be stored once and referenced by several textures
        if shuffle {
            if let Some(&j) = dorder[..k].iter().find(|&&j| texs[j].payload == texs[i].payload) {
                data_off[i] = data_off[j];
                continue;
            }
        }
        if shuffle && rng.chance(1, 3) {
            data.extend(std::iter::repeat(0xAA).take(rng.range(1, 16)));
        }
        data_off[i] = data.len();
        data.extend(&texs[i].payload);
    }
    let names_first = !shuffle || rng.bool();
    let order: Vec<usize> = if names_first { vec![0, 1] } else { vec![1, 0] };
    let offs = place(&mut img, &[&names, &data], &order, rng, 4, shuffle);
    let (names_at, data_at) = (offs[0], offs[1]);
    set_le32(&mut img, 8, data_at as u32);
    set_le32(&mut img, 12, data.len() as u32);
    let mut ranges = Vec::new();
    for i in 0..n {
        let e = info_at + 0x20 * i;
        set_le32(&mut img, e, (names_at + name_off[i]) as u32);
        set_le32(&mut img, e + 4, texs[i].payload.len() as u32);
        set_le32(&mut img, e + 8, data_off[i] as u32);
        set_le32(&mut img, e + 12, texs[i].format);
        img[e + 16..e + 18].copy_from_slice(&(texs[i].width as u16).to_le_bytes());
        img[e + 18..e + 20].copy_from_slice(&(texs[i].height as u16).to_le_bytes());
        img[e + 20] = 1; // mip level
        ranges.push((data_at + data_off[i], data_at + data_off[i] + texs[i].payload.len()));
    }
    Built { bytes: img, payload_ranges: ranges, default_order: !shuffle }
}

// ------------------------------------------------------------------------------------------- BCH

pub fn bch(texs: &[Tex], rng: &mut Rng, shuffle: bool, new_header: bool) -> Built {
    let n = texs.len();
    // --- contents section: content table (0x24: ptr table offset, 0x28: count), pointer table, texture headers
    let mut contents: Vec<u8> = vec![0; 0x2C];
    let mut hdr_off = vec![0usize; n];
    let put_table_first = !shuffle || rng.bool();
    let mut table_at = 0;
    if put_table_first {
        table_at = contents.len();
        contents.extend(std::iter::repeat(0).take(4 * n));
    }
    let mut horder: Vec<usize> = (0..n).collect();
    if shuffle {
        rng.shuffle(&mut horder);
    }
    for (k, &i) in horder.iter().enumerate() {
        // a texture that occurs twice in the list may be stored as one record referenced by two table slots
        if shuffle {
            if let Some(&j) = horder[..k].iter().find(|&&j| texs[j] == texs[i]) {
                hdr_off[i] = hdr_off[j];
                continue;
            }
        }
        if shuffle && rng.chance(1, 3) {
            contents.extend(std::iter::repeat(0x11).take(4 * rng.range(1, 3)));
        }
        hdr_off[i] = contents.len();
        contents.extend(std::iter::repeat(0).take(0x20));
    }
    if !put_table_first {
        table_at = contents.len();
        contents.extend(std::iter::repeat(0).take(4 * n));
    }
    set_le32(&mut contents, 0x24, table_at as u32);
    set_le32(&mut contents, 0x28, n as u32);
    // --- strings
    let mut strings: Vec<u8> = Vec::new();
    if shuffle {
        strings.extend_from_slice(b"pad\0");
    }
    let mut name_off = vec![0usize; n];
    let mut sorder: Vec<usize> = (0..n).collect();
    if shuffle {
        rng.shuffle(&mut sorder);
    }
    for &i in &sorder {
        name_off[i] = strings.len();
        strings.extend_from_slice(texs[i].name.as_bytes());
        strings.push(0);
    }
    // --- commands: per texture 0x1C bytes: height u16, width u16, 0xC skip, data offset, 4 skip, format
    let mut commands: Vec<u8> = Vec::new();
    let mut cmd_off = vec![0usize; n];
    let mut corder: Vec<usize> = (0..n).collect();
    if shuffle {
        rng.shuffle(&mut corder);
    }
    for &i in &corder {
        if shuffle && rng.chance(1, 3) {
            commands.extend(std::iter::repeat(0x22).take(4 * rng.range(1, 4)));
        }
        cmd_off[i] = commands.len();
        commands.extend(std::iter::repeat(0).take(0x1C));
    }
    // --- raw data
    let mut raw: Vec<u8> = Vec::new();
    let mut data_off = vec![0usize; n];
    let mut dorder: Vec<usize> = (0..n).collect();
    if shuffle {
        rng.shuffle(&mut dorder);
    }
    for (k, &i) in dorder.iter().enumerate() {
        if shuffle {
            if let Some(&j) = dorder[..k].iter().find(|&&j| texs[j].payload == texs[i].payload) {
                data_off[i] = data_off[j];
                continue;
            }
        }
        if shuffle && rng.chance(1, 3) {
            raw.extend(std::iter::repeat(0x33).take(rng.range(1, 16)));
        }
        data_off[i] = raw.len();
        raw.extend(&texs[i].payload);
    }
    for i in 0..n {
        set_le32(&mut contents, table_at + 4 * i, hdr_off[i] as u32);
        set_le32(&mut contents, hdr_off[i], cmd_off[i] as u32);
        set_le32(&mut contents, hdr_off[i] + 0x1C, name_off[i] as u32);
        let c = cmd_off[i];
        commands[c..c + 2].copy_from_slice(&(texs[i].height as u16).to_le_bytes());
        commands[c + 2..c + 4].copy_from_slice(&(texs[i].width as u16).to_le_bytes());
        set_le32(&mut commands, c + 0x10, data_off[i] as u32);
        set_le32(&mut commands, c + 0x18, texs[i].format);
    }
    // --- header
    let hdr_len = if new_header { 0x44 } else { 0x3C };
    let mut img: Vec<u8> = vec![0; hdr_len];
    img[0..4].copy_from_slice(&0x0048_4342u32.to_le_bytes());
    // backward-compatibility byte: the extended header (two more words) is present exactly when it
    // is greater than 20; both sides of that threshold are used, the exact neighbours included
    img[4] = if new_header { *rng.pick(&[21u8, 22, 0x21, 0x30, 0xFF]) } else { *rng.pick(&[0u8, 7, 19, 20]) };
    let mut order: Vec<usize> = vec![0, 1, 2, 3];
    if shuffle {
        rng.shuffle(&mut order);
    }
    let offs = place(&mut img, &[&contents, &strings, &commands, &raw], &order, rng, 4, shuffle);
    let mut at = 8;
    for k in 0..4 {
        set_le32(&mut img, at, offs[k] as u32);
        at += 4;
    }
    if new_header {
        at += 4; // raw ext address
    }
    at += 4; // relocation address
    for s in [contents.len(), strings.len(), commands.len(), raw.len()] {
        set_le32(&mut img, at, s as u32);
        at += 4;
    }
    let ranges = (0..n).map(|i| (offs[3] + data_off[i], offs[3] + data_off[i] + texs[i].payload.len())).collect();
    Built { bytes: img, payload_ranges: ranges, default_order: !shuffle }
}

// ------------------------------------------------------------------------------------------ CGFX

pub fn cgfx(texs: &[Tex], rng: &mut Rng, shuffle: bool) -> Built {
    let n = texs.len();
    let mut img: Vec<u8> = Vec::new();
    le32(&mut img, 0x5846_4743); // "CGFX"
    le16(&mut img, 0xFEFF);
    le16(&mut img, 0x14);
    le32(&mut img, 0x0500_0000);
    le32(&mut img, 0); // file size, patched
    le32(&mut img, 1);
    // DATA section right after the header
    let data_at = img.len();
    le32(&mut img, 0x4154_4144); // "DATA"
    le32(&mut img, 0);
    for _ in 0..16 {
        le32(&mut img, 0);
        le32(&mut img, 0);
    }
    // everything else is placed after the fields that point to it (self-relative, non-negative)
    if shuffle && rng.bool() {
        img.extend(std::iter::repeat(0x44).take(4 * rng.range(1, 6)));
    }
    // DICT for textures (entry 1 of DATA)
    let dict_at = img.len();
    let off_field = data_at + 8 + 8 * 1 + 4;
    set_le32(&mut img, data_at + 8 + 8 * 1, n as u32);
    set_le32(&mut img, off_field, (dict_at - off_field) as u32);
    le32(&mut img, 0x5443_4944); // "DICT"
    le32(&mut img, (0x1C + 0x10 * n) as u32);
    le32(&mut img, n as u32);
    img.extend_from_slice(&[0; 0x10]);
    let entries_at = img.len();
    img.extend(std::iter::repeat(0).take(0x10 * n));
    // objects, names, payloads: any order among themselves, all after the DICT
    #[derive(Clone, Copy)]
    enum Item {
        Obj(usize),
        Name(usize),
        Data(usize),
    }
    let mut items: Vec<Item> = Vec::new();
    for i in 0..n {
        items.push(Item::Obj(i));
    }
    if shuffle {
        rng.shuffle(&mut items);
    }
    // objects must precede the names/payloads they point to; so: objects first (any order), then the rest
    let mut rest: Vec<Item> = Vec::new();
    for i in 0..n {
        rest.push(Item::Name(i));
        rest.push(Item::Data(i));
    }
    if shuffle {
        rng.shuffle(&mut rest);
    }
    let mut obj_at = vec![0usize; n];
    let mut name_at = vec![0usize; n];
    let mut dat_at = vec![0usize; n];
    for it in items.iter().chain(rest.iter()) {
        if shuffle && rng.chance(1, 4) {
            img.extend(std::iter::repeat(0x55).take(rng.range(1, 12)));
        }
        match *it {
            Item::Obj(i) => {
                while img.len() % 4 != 0 {
                    img.push(0);
                }
                obj_at[i] = img.len();
                img.extend(std::iter::repeat(0).take(0x4C));
            }
            Item::Name(i) => {
                name_at[i] = img.len();
                img.extend_from_slice(texs[i].name.as_bytes());
                img.push(0);
            }
            Item::Data(i) => {
                // identical payload bytes may be stored once (only among payloads already placed)
                let prev = if shuffle { (0..n).find(|&j| j != i && dat_at[j] != 0 && texs[j].payload == texs[i].payload) } else { None };
                match prev {
                    Some(j) => dat_at[i] = dat_at[j],
                    None => {
                        dat_at[i] = img.len();
                        img.extend(&texs[i].payload);
                    }
                }
            }
        }
    }
    let mut ranges = Vec::new();
    for i in 0..n {
        let e = entries_at + 0x10 * i;
        set_le32(&mut img, e + 8, (name_at[i] - (e + 8)) as u32);
        set_le32(&mut img, e + 12, (obj_at[i] - (e + 12)) as u32);
        let o = obj_at[i];
        set_le32(&mut img, o, 0x2000_0011);
        set_le32(&mut img, o + 4, 0x424F_5854); // "TXOB"
        set_le32(&mut img, o + 0xC, (name_at[i] - (o + 0xC)) as u32);
        set_le32(&mut img, o + 0x18, texs[i].height as u32);
        set_le32(&mut img, o + 0x1C, texs[i].width as u32);
        set_le32(&mut img, o + 0x28, 1);
        set_le32(&mut img, o + 0x34, texs[i].format);
        set_le32(&mut img, o + 0x44, texs[i].payload.len() as u32);
        set_le32(&mut img, o + 0x48, (dat_at[i] - (o + 0x48)) as u32);
        ranges.push((dat_at[i], dat_at[i] + texs[i].payload.len()));
    }
    let total = img.len() as u32;
    set_le32(&mut img, 12, total);
    Built { bytes: img, payload_ranges: ranges, default_order: !shuffle }
}

// ------------------------------------------------------------------------------------------- TPL

/// CI8 images with RGB5A3 palettes. `payload` = index bytes in 8x4 block order for the aligned size.
pub fn tpl(texs: &[Tex], rng: &mut Rng, shuffle: bool) -> Built {
    let n = texs.len();
    let mut img: Vec<u8> = Vec::new();
    img.extend_from_slice(&0x0020_AF30u32.to_be_bytes());
    img.extend_from_slice(&(n as u32).to_be_bytes());
    img.extend_from_slice(&[0; 4]); // image table offset
    #[derive(Clone, Copy)]
    enum Item {
        Table,
        ImgHdr(usize),
        PalHdr(usize),
        ImgData(usize),
        PalData(usize),
    }
    let mut items = vec![Item::Table];
    for i in 0..n {
        items.push(Item::PalHdr(i));
        items.push(Item::PalData(i));
        items.push(Item::ImgHdr(i));
        items.push(Item::ImgData(i));
    }
    if shuffle {
        rng.shuffle(&mut items);
    }
    let mut table_at = 0;
    let mut ih = vec![0usize; n];
    let mut ph = vec![0usize; n];
    let mut id = vec![0usize; n];
    let mut pd = vec![0usize; n];
    for it in &items {
        if shuffle && rng.chance(1, 4) {
            img.extend(std::iter::repeat(0x66).take(rng.range(1, 12)));
        }
        while img.len() % 4 != 0 {
            img.push(0);
        }
        match *it {
            Item::Table => {
                table_at = img.len();
                img.extend(std::iter::repeat(0).take(8 * n));
            }
            Item::ImgHdr(i) => {
                ih[i] = img.len();
                img.extend(std::iter::repeat(0).take(0x24));
            }
            Item::PalHdr(i) => {
                ph[i] = img.len();
                img.extend(std::iter::repeat(0).take(0xC));
            }
            Item::ImgData(i) => {
                id[i] = img.len();
                img.extend(&texs[i].payload);
            }
            Item::PalData(i) => {
                pd[i] = img.len();
                for c in &texs[i].palette {
                    img.extend_from_slice(&c.to_be_bytes());
                }
            }
        }
    }
    set_be32(&mut img, 8, table_at as u32);
    let mut ranges = Vec::new();
    for i in 0..n {
        set_be32(&mut img, table_at + 8 * i, ih[i] as u32);
        set_be32(&mut img, table_at + 8 * i + 4, ph[i] as u32);
        let p = ph[i];
        img[p..p + 2].copy_from_slice(&(texs[i].palette.len() as u16).to_be_bytes());
        set_be32(&mut img, p + 4, 2); // RGB5A3
        set_be32(&mut img, p + 8, pd[i] as u32);
        let h = ih[i];
        img[h..h + 2].copy_from_slice(&(texs[i].height as u16).to_be_bytes());
        img[h + 2..h + 4].copy_from_slice(&(texs[i].width as u16).to_be_bytes());
        set_be32(&mut img, h + 4, 9); // CI8
        set_be32(&mut img, h + 8, id[i] as u32);
        set_be32(&mut img, h + 0x14, 1);
        set_be32(&mut img, h + 0x18, 1);
        ranges.push((id[i], id[i] + texs[i].payload.len()));
        ranges.push((pd[i], pd[i] + 2 * texs[i].palette.len()));
    }
    Built { bytes: img, payload_ranges: ranges, default_order: !shuffle }
}
