//! Independent reference reader for text-archive images (DESIGN §4.6) and the escape model (§4.7).
use super::archive::RefArchive;
use super::image;
use super::strings::{sjis_decode, sjis_encode};

pub struct TextImage {
    pub title: Option<String>,
    /// (key, message, address in the data region)
    pub entries: Vec<(String, String, usize)>,
}

fn read_sjis_at(data: &[u8], at: usize) -> Result<(String, usize), String> {
    let rest = data.get(at..).ok_or("offset beyond data")?;
    let n = rest.iter().position(|b| *b == 0).ok_or_else(|| format!("Shift-JIS string at {:#x} not terminated", at))?;
    let (s, err) = sjis_decode(&rest[..n]);
    if err {
        return Err(format!("invalid Shift-JIS at {:#x}", at));
    }
    Ok((s, at + n + 1))
}

fn read_utf16_at(data: &[u8], at: usize) -> Result<(String, usize), String> {
    let mut units: Vec<u16> = Vec::new();
    let mut p = at;
    loop {
        if p + 2 > data.len() {
            return Err(format!("UTF-16 string at {:#x} not terminated", at));
        }
        let u = u16::from_le_bytes([data[p], data[p + 1]]);
        p += 2;
        if u == 0 {
            break;
        }
        units.push(u);
    }
    let s: Result<String, _> = char::decode_utf16(units.into_iter()).collect();
    match s {
        Ok(s) => Ok((s, p)),
        Err(_) => Err(format!("unpaired surrogate in UTF-16 string at {:#x}", at)),
    }
}

fn align4(x: usize) -> usize {
    (x + 3) & !3
}

/// Walk a serialized text archive: every message must start on a 4-byte boundary, carry a label,
/// be terminated, and the data region must be exactly title + messages + padding.
pub fn read_text_image(bytes: &[u8], be: bool, unicode: bool) -> Result<TextImage, String> {
    let p = image::parse_strict(bytes, be)?;
    if !p.arch.text.is_empty() || !p.arch.ptrs.is_empty() {
        return Err("text archive image contains pointers".into());
    }
    let data = &p.arch.data;
    let mut pos = 0usize;
    let mut title = None;
    if unicode {
        let (t, end) = read_sjis_at(data, 0)?;
        title = Some(t);
        pos = align4(end);
    }
    let mut entries = Vec::new();
    let mut label_addrs: Vec<usize> = p.arch.labels.keys().copied().collect();
    label_addrs.sort();
    let mut li = 0;
    while pos < data.len() {
        if pos % 4 != 0 {
            return Err(format!("message at {:#x} is not 4-byte aligned", pos));
        }
        let labels = p.arch.labels.get(&pos).ok_or_else(|| format!("message at {:#x} has no label (key)", pos))?;
        if li >= label_addrs.len() || label_addrs[li] != pos {
            return Err(format!("label at {:#x} does not sit on a message start (next message at {:#x})", label_addrs.get(li).copied().unwrap_or(0), pos));
        }
        li += 1;
        let (msg, end) = if unicode { read_utf16_at(data, pos)? } else { read_sjis_at(data, pos)? };
        for b in &data[end.min(data.len())..align4(end).min(data.len())] {
            if *b != 0 {
                return Err(format!("non-zero padding after message at {:#x}", pos));
            }
        }
        if align4(end) > data.len() {
            return Err(format!("data region ends inside the padding of the message at {:#x}", pos));
        }
        entries.push((labels[0].clone(), msg, pos));
        pos = align4(end);
    }
    if li != label_addrs.len() {
        return Err(format!("label at {:#x} does not sit on a message start", label_addrs[li]));
    }
    Ok(TextImage { title, entries })
}

/// set_message's escape rule, written as a scanner: left-to-right, non-overlapping `\` `n` -> LF
pub fn unescape(msg: &str) -> String {
    let cs: Vec<char> = msg.chars().collect();
    let mut out = String::new();
    let mut i = 0;
    while i < cs.len() {
        if cs[i] == '\\' && i + 1 < cs.len() && cs[i + 1] == 'n' {
            out.push('\n');
            i += 2;
        } else {
            out.push(cs[i]);
            i += 1;
        }
    }
    out
}

/// get_message's escape rule: every LF comes back as `\` `n`
pub fn escape(stored: &str) -> String {
    let mut out = String::new();
    for ch in stored.chars() {
        if ch == '\n' {
            out.push('\\');
            out.push('n');
        } else {
            out.push(ch);
        }
    }
    out
}

/// Reference writer for a text-archive image that did not come out of the library: the (Shift-JIS)
/// title for the UTF-16 format, then every message 4-byte aligned and terminated, each carrying the
/// given labels at its address (exactly one in a conforming file; none or several for the
/// unusual-but-parseable files some tools leave behind).
pub fn write_text_image(be: bool, unicode: bool, title: &str, entries: &[(Vec<String>, String)]) -> Vec<u8> {
    let mut a = RefArchive::new(be);
    let pad4 = |v: &mut Vec<u8>| {
        while v.len() % 4 != 0 {
            v.push(0);
        }
    };
    if unicode {
        a.data.extend(sjis_encode(title).expect("title in the Shift-JIS domain"));
        a.data.push(0);
        pad4(&mut a.data);
    }
    for (labels, msg) in entries {
        let at = a.data.len();
        if unicode {
            for u in msg.encode_utf16() {
                a.data.extend_from_slice(&u.to_le_bytes());
            }
            a.data.extend_from_slice(&[0, 0]);
        } else {
            a.data.extend(sjis_encode(msg).expect("message in the Shift-JIS domain"));
            a.data.push(0);
        }
        pad4(&mut a.data);
        if !labels.is_empty() {
            a.labels.insert(at, labels.clone());
        }
    }
    image::write_canonical(&a, None)
}
