#!/bin/sh
# MANIFEST.setup_cmd: build the worker lanes offline from files on disk only.
set -e
cd "$(dirname "$0")/harness"
export CARGO_NET_OFFLINE=true
cp /repo/Cargo.lock Cargo.lock
cargo build --offline --profile checked 2>&1 | tail -2
cargo build --offline --release 2>&1 | tail -2
echo "setup done"
