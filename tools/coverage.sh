#!/bin/bash
# One-off measurement (M-cov, DESIGN §2.1): which lines of /repo/src do the workloads reach?
# Evidence only, never a verdict. Usage: tools/coverage.sh [scale]   (default 0.05)
set -e
SCALE=${1:-0.05}
cd "$(dirname "$0")/../harness"
B=$(dirname "$(rustup +nightly which rustc)")/../lib/rustlib/x86_64-unknown-linux-gnu/bin
OUT=/verif/.scratch/cov
rm -rf "$OUT"; mkdir -p "$OUT"
LLVM_PROFILE_FILE=$OUT/build-%p-%m.profraw RUSTFLAGS="-Cinstrument-coverage" CARGO_NET_OFFLINE=true cargo +nightly build --offline --profile checked --target-dir target-cov 2>&1 | tail -1
for p in C01 C02 C03 C04 C05 C06 C07 C08 C09 C10 C11 C12 C13 C14 C15 C16 C17 C18 C19 C20; do
  LLVM_PROFILE_FILE=$OUT/$p-%p.profraw ./target-cov/checked/mv-worker $p --scale "$SCALE" --scratch $OUT/fs-$p --out $OUT/$p.json >/dev/null 2>&1 || true
done
rm -f $OUT/build-*.profraw
"$B/llvm-profdata" merge -sparse $OUT/*.profraw -o $OUT/all.profdata
"$B/llvm-cov" report ./target-cov/checked/mv-worker -instr-profile=$OUT/all.profdata /repo/src 2>/dev/null | awk 'NR>2 && NF>=10 {printf "%-28s lines %5s  missed %5s  covered %s\n", $1, $8, $9, $10}'
rm -rf "$OUT"
