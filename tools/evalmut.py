#!/usr/bin/env python3
"""Evaluate seeded changes (mutants) on scratch copies, never in /repo.

  tools/evalmut.py <candidate-dir> [<candidate-dir> ...] [--slot N] [--props C01,C02] [--tier quick] [--lanes asan,miri]

A candidate dir holds patch.diff, demo.rs, meta.json (as written by a sub-agent). For each one:
  1. confirm, in a scratch worktree of /repo: the patch applies, the crate's 82 tests pass with it,
     the demo fails with it and passes without it;
  2. run the property's check (and optionally others) with the harness pointed at the patched
     scratch worktree (VERIF_HARNESS / VERIF_REPO / VERIF_OUT overrides of ./check);
  3. print one JSON line with the outcome.
Nothing is written under /repo or /verif/evidence.
"""
import json
import os
import re
import shutil
import subprocess
import sys

VERIF = os.path.dirname(os.path.dirname(os.path.abspath(__file__)))


def sh(cmd, cwd=None, env=None, timeout=3600):
    p = subprocess.run(cmd, cwd=cwd, env=env, stdout=subprocess.PIPE, stderr=subprocess.STDOUT, text=True, timeout=timeout, shell=isinstance(cmd, str))
    return p.returncode, p.stdout


def prepare_slot(slot):
    base = "/tmp/eval/slot%d" % slot
    wt = base + "/wt"
    os.makedirs(base, exist_ok=True)
    if not os.path.isdir(wt):
        rc, out = sh(["git", "-C", "/repo", "worktree", "add", "--detach", "-f", wt, "HEAD"])
        if rc != 0:
            raise SystemExit("cannot create worktree: " + out)
    else:
        sh(["git", "-C", wt, "checkout", "-q", "--detach", subprocess.check_output(["git", "-C", "/repo", "rev-parse", "HEAD"], text=True).strip()])
        sh(["git", "-C", wt, "checkout", "--", "."])
        sh(["git", "-C", wt, "clean", "-fdq", "tests"])
    h = base + "/harness"
    sh(["rsync", "-a", "--delete", "--exclude", "target*", "--exclude", "Cargo.lock", VERIF + "/harness/", h + "/"])
    ct = open(h + "/Cargo.toml").read().replace('path = "/repo"', 'path = "%s"' % wt)
    open(h + "/Cargo.toml", "w").write(ct)
    return base, wt, h


def confirm(wt, cand):
    """returns dict of the three facts, established here (not taken from the agent)"""
    res = {"applies": False, "tests_pass_with_change": False, "demo_fails_with_change": False, "demo_passes_without_change": False}
    env = dict(os.environ, CARGO_NET_OFFLINE="true", RUST_BACKTRACE="0")
    sh(["git", "-C", wt, "checkout", "--", "."])
    os.makedirs(wt + "/tests", exist_ok=True)
    demo = wt + "/tests/seeded_demo.rs"
    if os.path.exists(demo):
        os.remove(demo)
    rc, out = sh(["git", "-C", wt, "apply", "--whitespace=nowarn", os.path.abspath(cand + "/patch.diff")])
    if rc != 0:
        res["error"] = "patch does not apply: " + out[-300:]
        return res
    res["applies"] = True
    changed = subprocess.check_output(["git", "-C", wt, "diff", "--name-only"], text=True).split()
    res["files_changed"] = changed
    if any(not f.startswith("src/") for f in changed):
        res["error"] = "patch touches files outside src/: %s" % changed
        return res
    rc, out = sh(["cargo", "test", "--workspace", "--no-fail-fast", "--offline"], cwd=wt, env=env)
    m = re.search(r"test result: (\w+)\. (\d+) passed; (\d+) failed", out)
    res["tests_pass_with_change"] = bool(rc == 0 and m and m.group(1) == "ok" and int(m.group(2)) == 82)
    if not res["tests_pass_with_change"]:
        res["error"] = "suite with change: " + (m.group(0) if m else out[-300:])
        return res
    shutil.copyfile(cand + "/demo.rs", demo)
    rc, out = sh(["cargo", "test", "--offline", "--test", "seeded_demo"], cwd=wt, env=env)
    res["demo_fails_with_change"] = rc != 0 and ("test result: FAILED" in out or "panicked" in out or "SIGABRT" in out or "signal" in out)
    if rc != 0 and not res["demo_fails_with_change"]:
        res["error"] = "demo does not build/run with change: " + out[-400:]
    # without the change
    sh(["git", "-C", wt, "checkout", "--", "."])
    rc, out = sh(["cargo", "test", "--offline", "--test", "seeded_demo"], cwd=wt, env=env)
    res["demo_passes_without_change"] = rc == 0
    if rc != 0:
        res["error"] = "demo fails on the clean tree: " + out[-400:]
    os.remove(demo)
    # leave the patch applied for the check runs
    sh(["git", "-C", wt, "apply", "--whitespace=nowarn", os.path.abspath(cand + "/patch.diff")])
    return res


LANES = None


def run_check(base, wt, h, prop, tier, seed):
    env = dict(os.environ, VERIF_HARNESS=h, VERIF_REPO=wt, VERIF_OUT=base + "/out", VERIF_SEED=str(seed), CARGO_NET_OFFLINE="true")
    os.makedirs(base + "/out", exist_ok=True)
    # make sure the worker is rebuilt against the patched sources (never trust mtimes alone)
    for prof in (["--profile", "checked"], ["--release"]):
        sh(["cargo", "clean", "--offline", "-p", "mila"] + prof, cwd=h, env=env)
    rc, out = sh([VERIF + "/check", prop, "--tier", tier] + (["--lanes", LANES] if LANES else []), cwd=VERIF, env=env, timeout=14400)
    sigs = []
    try:
        ev = json.load(open(base + "/out/evidence/%s.json" % prop))
        sigs = ev["coverage"].get("violation_signatures", [])
    except Exception:
        pass
    first = [l for l in out.splitlines() if l.startswith("  [")][:2]
    return {"property": prop, "exit": rc, "signatures": sigs[:8], "first": [f[:300] for f in first], "tail": out[-300:] if rc not in (0, 1) else ""}


def main():
    args = sys.argv[1:]
    slot = 0
    tier = "quick"
    props = None
    seed = 1
    no_confirm = False
    cands = []
    i = 0
    while i < len(args):
        if args[i] == "--slot":
            slot = int(args[i + 1]); i += 1
        elif args[i] == "--tier":
            tier = args[i + 1]; i += 1
        elif args[i] == "--props":
            props = args[i + 1].split(","); i += 1
        elif args[i] == "--lanes":
            global LANES
            LANES = args[i + 1]; i += 1
        elif args[i] == "--no-confirm":
            no_confirm = True
        elif args[i] == "--seed":
            seed = int(args[i + 1]); i += 1
        else:
            cands.append(args[i].rstrip("/"))
        i += 1
    base, wt, h = prepare_slot(slot)
    for cand in cands:
        meta = {}
        try:
            meta = json.load(open(cand + "/meta.json"))
        except Exception as e:
            meta = {"error": "meta.json unreadable: %s" % e}
        own = meta.get("property") or os.path.basename(os.path.dirname(cand))
        cprops = meta.get("check_with") or props
        res = {"candidate": cand, "property": own, "title": meta.get("title", "")}
        if no_confirm:
            # re-verification pass: the three facts were established before; only apply the patch
            sh(["git", "-C", wt, "checkout", "--", "."])
            rc, out = sh(["git", "-C", wt, "apply", "--whitespace=nowarn", os.path.abspath(cand + "/patch.diff")])
            res["confirm"] = {"applies": rc == 0, "tests_pass_with_change": True, "demo_fails_with_change": True, "demo_passes_without_change": True, "skipped": True}
        else:
            res["confirm"] = confirm(wt, cand)
        ok = all(res["confirm"].get(k) for k in ("applies", "tests_pass_with_change", "demo_fails_with_change", "demo_passes_without_change"))
        res["valid"] = ok
        res["checks"] = []
        if ok:
            for p in (cprops or [own]):
                res["checks"].append(run_check(base, wt, h, p, tier, seed))
        res["detected_by"] = [c["property"] for c in res["checks"] if c["exit"] == 1]
        print(json.dumps(res), flush=True)
        sh(["git", "-C", wt, "checkout", "--", "."])


if __name__ == "__main__":
    main()
