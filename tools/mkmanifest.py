#!/usr/bin/env python3
"""Regenerate /verif/MANIFEST.json from tools/propcfg.py (claimed = properties configured there)."""
import json, os, sys
VERIF = os.path.dirname(os.path.dirname(os.path.abspath(__file__)))
sys.path.insert(0, os.path.join(VERIF, "tools"))
from propcfg import PROPS, NOT_APPLICABLE, HOOK_COMMITS
props = [json.loads(l) for l in open(os.path.join(VERIF, "properties.jsonl"))]
checks = []
for p in props:
    pid = p["id"]
    if pid not in PROPS:
        continue
    cfg = PROPS[pid]
    checks.append({
        "property_id": pid,
        "quick_cmd": "./check %s --tier quick" % pid,
        "thorough_cmd": "./check %s --tier thorough" % pid,
        "evidence_file": "/verif/evidence/%s.json" % pid,
        "replay_cmd_template": "./check %s --replay {path}" % pid,
        "engine": "mv-worker",
        "level_claimed": {
            "category": "exploration",
            "text": cfg.get("level_text", "runtime monitoring: the real library (built from /repo's working tree) is driven by directed, bounded-exhaustive and seeded random workloads while independent reference oracles and process-level monitors (panic hook, abort supervision, allocation and CPU monitors, heap canaries / page fences / poison comparison) observe every result; held on the executions listed in the evidence file, nothing more"),
            "design_ref": "DESIGN.md §6 " + pid,
        },
        "level_note": cfg.get("level_note", "trusted: the reference oracles in harness/src/refs (self-calibrated against the repository's golden files on every run), encoding_rs codec tables, rustc/cargo; lanes: " + ", ".join(sorted({l["lane"] for t in ("quick", "thorough") for l in cfg[t]}))),
        "technique": cfg.get("technique", "runtime monitoring: differential reference-model and offline image-checker monitors over generated workloads; panic/abort/allocation/CPU monitors; home-made memory monitors on the native lanes (tight and page-fenced buffers, guard-mode allocator with canaries, poison and sampled page fences, calls repeated under two poison bytes); sanitizer lanes (ASan, Miri, memcheck) in the thorough tier"),
    })
na = []
for p in props:
    if p["id"] not in PROPS:
        na.append({"property_id": p["id"], "reason": NOT_APPLICABLE.get(p["id"], "check not built yet in this revision (work in progress; see DESIGN.md §6 %s)" % p["id"])})
m = {
    "version": 1,
    "setup_cmd": "./setup.sh",
    "hooks": {
        "guard": "verif-hooks",
        "enable": "cargo feature: /verif/harness depends on mila by path (/repo) with features=[\"verif-hooks\"]; every check rebuilds the worker from /repo's working tree",
        "baseline_off_cmd": "cd /repo && cargo test --workspace --no-fail-fast --offline",
        "source_commits": HOOK_COMMITS,
        "add_only": True,
    },
    "engines": [{"name": "mv-worker", "path": "/verif/harness", "serves_properties": sorted(PROPS.keys()),
                 "kind_free_text": "Rust worker linking the real mila crate: workloads + reference oracles + monitors; supervised by /verif/check (python: sharding, abort/CPU/allocation supervision, lane builds, known-findings, evidence)"}],
    "checks": checks,
    "not_applicable": na,
    "notes": "See DESIGN.md. Exit 2 from a check = inconclusive / harness error, never a verdict. VERIF_SEED and VERIF_TIER are honoured.",
}
json.dump(m, open(os.path.join(VERIF, "MANIFEST.json"), "w"), indent=1)
print("claimed:", ",".join(sorted(PROPS.keys())), "| not claimed:", ",".join(x["property_id"] for x in na))
