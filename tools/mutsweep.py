#!/usr/bin/env python3
"""Operator-level mutation sweep (complements the hand-written seeded changes of DESIGN section 10).

  tools/mutsweep.py gen  <out.jsonl> [--per-file N] [--seed S]      enumerate + sample mutants of /repo/src
  tools/mutsweep.py run  <mutants.jsonl> <results.jsonl> --slot K --part i/n

A mutant is one token-level edit on one line of one source file (comparison / arithmetic / logical
operator swapped, integer literal +-1, `!` dropped). For each sampled mutant, in a scratch worktree
(never in /repo): build; run the repository's own tests (a mutant they kill is of no interest);
if it survives them, run the quick tier of the checks mapped to that file until one reports a
violation. Output: one JSON line per mutant with status in
{no_build, killed_by_repo_tests, detected, survived, inconclusive}.
"""
import json
import os
import random
import re
import subprocess
import sys

VERIF = os.path.dirname(os.path.dirname(os.path.abspath(__file__)))
sys.path.insert(0, os.path.join(VERIF, "tools"))
import evalmut  # noqa: E402

FILE_PROPS = {
    "arc.rs": ["C16", "C05"], "aset.rs": ["C17", "C05"], "asset_binary.rs": ["C18", "C05"],
    "bch.rs": ["C20"], "cgfx.rs": ["C20"], "ctpk.rs": ["C20", "C19"], "tpl.rs": ["C20", "C19"],
    "bin_archive.rs": ["C01", "C03", "C04", "C02", "C05"], "bin_streams.rs": ["C04", "C03", "C06", "C16"],
    "compression_format.rs": ["C11", "C12"], "encoded_strings.rs": ["C01", "C06", "C15", "C05"],
    "endian_aware_io.rs": ["C04", "C01", "C15"], "etc1.rs": ["C19"], "fe9_arc.rs": ["C15", "C05"],
    "layered_filesystem.rs": ["C12", "C13", "C14"], "localization.rs": ["C14"],
    "lz10.rs": ["C08", "C10", "C11"], "lz13.rs": ["C09", "C10", "C11", "C08"], "pixel_encodings.rs": ["C19", "C20"],
    "text_archive.rs": ["C06", "C07", "C05"], "texture_decoder.rs": ["C19", "C20"], "texture_utils.rs": ["C19", "C20"],
}

SWAPS = [
    (r"<=", [">=", "<"]), (r">=", ["<=", ">"]), (r"==", ["!="]), (r"!=", ["=="]),
    (r"(?<![<>=!-])<(?![<=])", ["<="]), (r"(?<![<>=!-])>(?![>=])", [">="]),
    (r"&&", ["||"]), (r"\|\|", ["&&"]), (r"<<", [">>"]), (r">>", ["<<"]),
    (r"(?<=\s)\+(?=\s)", ["-"]), (r"(?<=\s)-(?=\s)", ["+"]), (r"(?<=\s)\*(?=\s)", ["/"]),
    (r"(?<=\s)&(?=\s)", ["|"]), (r"(?<=\s)\|(?=\s)", ["&"]),
]
INT = re.compile(r"(?<![\w.])(0x[0-9A-Fa-f]+|\d+)(?![\w.]|\s*\.\.)")


def code_part(line):
    # cut a trailing comment (good enough: the sources have no '//' inside string literals on code lines)
    i = line.find("//")
    return line if i < 0 else line[:i]


def enumerate_file(path):
    out = []
    lines = open(path).read().split("\n")
    in_test = False
    for no, line in enumerate(lines):
        if "#[cfg(test)]" in line:
            in_test = True
        if in_test:
            continue
        s = line.strip()
        if not s or s.startswith("//") or s.startswith("#[") or s.startswith("use ") or s.startswith("pub use") or s.startswith("mod "):
            continue
        code = code_part(line)
        # skip generics / type positions for '<' '>' swaps: only lines that look like expressions
        exprish = any(k in code for k in ("if ", "while ", "for ", "return", "let ", "=", "(")) and "fn " not in code and "impl" not in code and "struct " not in code and "->" not in code.split("{")[0]
        for pat, reps in SWAPS:
            for m in re.finditer(pat, code):
                if pat.startswith("(?<![<>=!-])") and (not exprish or "::<" in code or re.search(r"<\w+>", code) or "Vec<" in code or "Option<" in code or "Result<" in code or "&'" in code):
                    continue
                for r in reps:
                    new = line[:m.start()] + r + line[m.end():]
                    out.append((no, line, new, "%s -> %s" % (m.group(0), r)))
        for m in INT.finditer(code):
            tok = m.group(1)
            try:
                v = int(tok, 16) if tok.lower().startswith("0x") else int(tok)
            except ValueError:
                continue
            for nv in ([v + 1, v - 1] if v > 0 else [1]):
                rep = ("0x%X" % nv) if tok.lower().startswith("0x") else str(nv)
                new = line[:m.start(1)] + rep + line[m.end(1):]
                out.append((no, line, new, "%s -> %s" % (tok, rep)))
        for m in re.finditer(r"(?<![=!<>])!(?=[a-zA-Z_(])", code):
            if "!(" in code[m.start():m.start() + 2] or re.match(r"!\w+[.(]", code[m.start():]) or re.match(r"!\w+\b(?!!)", code[m.start():]):
                if re.match(r"!\w+!", code[m.start():]):
                    continue  # a macro call such as !vec![..] does not occur; safety only
                new = line[:m.start()] + line[m.end():]
                out.append((no, line, new, "! dropped"))
    return out


def gen(out, per_file, seed):
    rnd = random.Random(seed)
    src = "/repo/src"
    rows = []
    for fn in sorted(FILE_PROPS):
        ms = enumerate_file(os.path.join(src, fn))
        rnd.shuffle(ms)
        # at most two mutants per source line, then up to per_file
        per_line = {}
        chosen = []
        for m in ms:
            if per_line.get(m[0], 0) >= 2:
                continue
            per_line[m[0]] = per_line.get(m[0], 0) + 1
            chosen.append(m)
            if len(chosen) >= per_file:
                break
        for (no, old, new, desc) in chosen:
            rows.append({"file": "src/" + fn, "line": no + 1, "old": old, "new": new, "desc": desc, "props": FILE_PROPS[fn], "available": len(ms)})
    with open(out, "w") as f:
        for i, r in enumerate(rows):
            r["id"] = "op%04d" % i
            f.write(json.dumps(r) + "\n")
    print(len(rows), "mutants sampled")


def run(mutants, results, slot, part):
    i, n = [int(x) for x in part.split("/")]
    rows = [json.loads(l) for l in open(mutants)]
    rows = [r for k, r in enumerate(rows) if k % n == i]
    done = set()
    if os.path.exists(results):
        for l in open(results):
            try:
                done.add(json.loads(l)["id"])
            except Exception:
                pass
    base, wt, h = evalmut.prepare_slot(slot)
    env = dict(os.environ, CARGO_NET_OFFLINE="true", RUST_BACKTRACE="0")
    out = open(results, "a")
    for r in rows:
        if r["id"] in done:
            continue
        evalmut.sh(["git", "-C", wt, "checkout", "--", "."])
        p = os.path.join(wt, r["file"])
        lines = open(p).read().split("\n")
        res = dict(r)
        if lines[r["line"] - 1] != r["old"]:
            res["status"] = "stale"
            out.write(json.dumps(res) + "\n"); out.flush()
            continue
        lines[r["line"] - 1] = r["new"]
        open(p, "w").write("\n".join(lines))
        rc, o = evalmut.sh(["cargo", "build", "--offline"], cwd=wt, env=env)
        if rc != 0:
            res["status"] = "no_build"
            out.write(json.dumps(res) + "\n"); out.flush()
            continue
        try:
            rc, o = evalmut.sh(["timeout", "600", "cargo", "test", "--workspace", "--no-fail-fast", "--offline"], cwd=wt, env=env, timeout=900)
        except subprocess.TimeoutExpired:
            rc, o = 124, ""
        m = re.search(r"test result: (\w+)\. (\d+) passed; (\d+) failed", o)
        if not (rc == 0 and m and m.group(1) == "ok" and int(m.group(2)) == 82):
            res["status"] = "killed_by_repo_tests"
            out.write(json.dumps(res) + "\n"); out.flush()
            continue
        res["status"] = "survived"
        res["checks"] = []
        for prop in r["props"]:
            c = evalmut.run_check(base, wt, h, prop, "quick", 1)
            res["checks"].append({"property": prop, "exit": c["exit"], "signatures": c["signatures"][:3]})
            if c["exit"] == 1:
                res["status"] = "detected"
                break
            if c["exit"] not in (0, 1):
                res["status"] = "inconclusive"
        out.write(json.dumps(res) + "\n"); out.flush()
    evalmut.sh(["git", "-C", wt, "checkout", "--", "."])


if __name__ == "__main__":
    a = sys.argv[1:]
    if a and a[0] == "gen":
        per = 20
        seed = 1
        if "--per-file" in a:
            per = int(a[a.index("--per-file") + 1])
        if "--seed" in a:
            seed = int(a[a.index("--seed") + 1])
        gen(a[1], per, seed)
    elif a and a[0] == "run":
        slot = int(a[a.index("--slot") + 1])
        part = a[a.index("--part") + 1]
        run(a[1], a[2], slot, part)
    else:
        print(__doc__)
