"""Per-property lane configuration for ./check (DESIGN §2.2).

lane entry: lane (checked|wrapping|asan|miri|memcheck|strace), scale (workload multiplier),
workers (number of shard processes; default = all cores), mode (passed to the worker).
"""

def L(lane, scale=1.0, **kw):
    d = {"lane": lane, "scale": scale}
    d.update(kw)
    return d

COMMON_ASSUME = [
    "the reference oracles in /verif/harness/src/refs are correct (self-calibrated against the repository's golden files at the start of every run)",
    "encoding_rs's Shift-JIS / UTF-16 tables are taken as given (the properties do the same)",
    "a passing run means: held on the executions listed here, nothing more",
]

PROPS = {
    "C01": {
        "quick": [L("checked", 1.0), L("wrapping", 0.25)],
        "thorough": [L("checked", 1.0), L("wrapping", 0.25), L("asan", 0.05), L("miri", 0.00002, workers=16)],
        "assumptions": COMMON_ASSUME,
    },
}
