"""Per-property lane configuration for ./check (DESIGN §2.2).

lane entry: lane (checked|wrapping|asan|miri|memcheck|strace), scale (workload multiplier),
workers (number of shard processes; default = all cores), mode (passed to the worker).
"""

def L(lane, scale=1.0, **kw):
    d = {"lane": lane, "scale": scale}
    d.update(kw)
    return d

COMMON_ASSUME = [
    "the reference oracles in /verif/harness/src/refs are correct (self-calibrated against the repository's golden files at the start of every run)",
    "encoding_rs's Shift-JIS / UTF-16 tables are taken as given (the properties do the same)",
    "a passing run means: held on the executions listed here, nothing more",
]

HOOK_COMMITS = ["e8b910d"]

# properties deliberately not claimed, with the reason (none so far: all 20 are in scope)
NOT_APPLICABLE = {}

PROPS = {
    "C01": {
        "quick": [L("checked", 1.0), L("wrapping", 0.25)],
        "thorough": [L("checked", 1.0), L("wrapping", 0.25), L("asan", 0.05), L("miri", 0.00002, workers=16)],
        "assumptions": COMMON_ASSUME,
    },
    "C03": {
        "quick": [L("checked", 1.0), L("wrapping", 0.25)],
        "thorough": [L("checked", 1.0), L("wrapping", 0.5), L("asan", 0.02), L("miri", 0.00001, workers=16)],
        "assumptions": COMMON_ASSUME,
        "exhaustive_notes": ["single allocate/deallocate/truncate operations over archives of 0..=4 cells x 3 annotation patterns x a in 0..=size+5 x n in {0,1,2,4,8,12,size,size+4} x ge", "all pairs of those operations on archives of <=3 cells over the reduced grid (aligned a, n in {0,4,8})"],
    },
    "C04": {
        "quick": [L("checked", 1.0), L("wrapping", 1.0)],
        "thorough": [L("checked", 1.0), L("wrapping", 1.0), L("asan", 0.1), L("miri", 0.0001, workers=16)],
        "assumptions": COMMON_ASSUME,
        "exhaustive_notes": ["boundary grid: sizes {0..=9,16,255,256,4096} x endian x every accessor (positional and stream) x addresses {0..=size+8} u huge set x read_bytes/write_bytes length grid"],
    },
    "C06": {
        "quick": [L("checked", 1.0), L("wrapping", 0.25)],
        "thorough": [L("checked", 1.0), L("wrapping", 0.25), L("asan", 0.05), L("memcheck", 0.002, workers=8), L("miri", 0.00002, workers=8, mode="legacy_only")],
        "assumptions": COMMON_ASSUME + ["Miri cannot run the UTF-16 decode path (encoding_rs 0.8.24 uses mem::uninitialized there); that path is covered by the checked/wrapping/ASan/memcheck lanes only"],
        "exhaustive_notes": ["every BMP scalar value except NUL and surrogates as a one-character message and as the first character of a two-character message (UTF-16 format)", "every message length 0..=8 x title length 0..=9 x format x endian"],
    },
    "C07": {
        "quick": [L("checked", 1.0)],
        "thorough": [L("checked", 1.0), L("wrapping", 0.1), L("miri", 0.00002, workers=8)],
        "assumptions": COMMON_ASSUME,
        "exhaustive_notes": ["every history of length <=4 (quick) / <=5 (thorough) over 18 operations on keys {a,b,c} x values {x, backslash-n, LF, backslash+LF}"],
    },
    "C08": {
        "quick": [L("checked", 1.0), L("wrapping", 0.5)],
        "thorough": [L("checked", 1.0), L("wrapping", 0.5), L("asan", 0.05), L("miri", 0.00005, workers=16)],
        "assumptions": COMMON_ASSUME,
        "exhaustive_notes": ["all inputs over {0,1} of length 0..=14 (quick) / 0..=16 (thorough) and over {0,1,2} of length 0..=9 / 0..=10"],
    },
    "C09": {
        "quick": [L("checked", 1.0), L("wrapping", 0.5)],
        "thorough": [L("checked", 1.0), L("wrapping", 0.5), L("asan", 0.05), L("miri", 0.00005, workers=16)],
        "assumptions": COMMON_ASSUME,
        "exhaustive_notes": ["all non-empty inputs over {0,1} of length 1..=14 (quick) / 1..=16 (thorough) and over {0,1,2} of length 1..=9 / 1..=10"],
    },
    "C10": {
        "quick": [L("checked", 1.0)],
        "thorough": [L("checked", 1.0), L("wrapping", 0.125)],
        "assumptions": COMMON_ASSUME,
        "exhaustive_notes": ["thorough: all periods 1..=4096 x 3 pattern kinds x 13 total lengths x 2 formats"],
    },
    "C11": {
        "quick": [L("checked", 1.0), L("wrapping", 1.0)],
        "thorough": [L("checked", 1.0), L("wrapping", 1.0), L("asan", 0.1), L("memcheck", 0.002, workers=16), L("miri", 0.0001, workers=16)],
        "assumptions": COMMON_ASSUME,
    },
    "C15": {
        "quick": [L("checked", 1.0), L("wrapping", 0.25)],
        "thorough": [L("checked", 1.0), L("wrapping", 0.25), L("asan", 0.05), L("miri", 0.00002, workers=8)],
        "assumptions": COMMON_ASSUME,
    },
    "C16": {
        "quick": [L("checked", 1.0), L("wrapping", 0.25)],
        "thorough": [L("checked", 1.0), L("wrapping", 0.25), L("asan", 0.05), L("miri", 0.00002, workers=8)],
        "assumptions": COMMON_ASSUME + ["file names are never `Count`, `Info` or `Data`: the format looks those labels up by name and the statement assumes one label of each"],
    },
    "C17": {
        "quick": [L("checked", 1.0), L("wrapping", 0.125)],
        "thorough": [L("checked", 1.0), L("wrapping", 0.125), L("asan", 0.1), L("miri", 0.00005, workers=8)],
        "assumptions": COMMON_ASSUME,
        "exhaustive_notes": ["a set with exactly one present slot, at each of the 256 positions in turn"],
    },
    "C18": {
        "quick": [L("checked", 1.0), L("wrapping", 0.125)],
        "thorough": [L("checked", 1.0), L("wrapping", 0.125), L("asan", 0.1), L("miri", 0.00005, workers=8)],
        "assumptions": COMMON_ASSUME,
        "exhaustive_notes": ["each of the 33 optional strings and 18 typed fields present alone, and every pair of adjacent fields"],
    },
    "C05": {
        "quick": [L("checked", 1.0), L("wrapping", 1.0)],
        "thorough": [L("checked", 1.0), L("wrapping", 1.0), L("asan", 0.25), L("memcheck", 0.004, workers=16), L("miri", 0.0002, workers=16)],
        "asan_max_alloc_mb": 256,
        "assumptions": COMMON_ASSUME + ["termination is restated as: every call on an input <= 64 KiB finishes within 20 s of worker CPU time (two-strike rule); allocation is restated as: no single request above 1 MiB + 64 x input length"],
    },
    "C12": {
        "quick": [L("checked", 1.0)],
        "thorough": [L("checked", 1.0), L("wrapping", 0.1), L("strace", 0.004, workers=16)],
        "offline": ["strace_check"],
        "assumptions": COMMON_ASSUME + ["runs on this sandbox's filesystem (case-sensitive, no symlinks in the workload)"],
    },
    "C13": {
        "quick": [L("checked", 1.0)],
        "thorough": [L("checked", 1.0), L("wrapping", 0.1)],
        "assumptions": COMMON_ASSUME + ["patterns are restricted to the family {none, *, *.ext, **/*.ext, name.*, sub/*}", "runs on this sandbox's filesystem (case-sensitive, no symlinks in the workload)"],
    },
    "C14": {
        "quick": [L("checked", 1.0)],
        "thorough": [L("checked", 1.0), L("wrapping", 0.2), L("miri", 1.0, workers=16)],
        "assumptions": COMMON_ASSUME,
        "exhaustive_notes": ["6 localizers x 8 languages x all 30940 paths of depth 1..=4 over 13 components, with and without trailing slash, plus 8 degenerate paths"],
    },
    "C19": {
        "quick": [L("checked", 1.0), L("wrapping", 1.0)],
        "thorough": [L("checked", 1.0), L("wrapping", 1.0), L("asan", 1.0), L("memcheck", 0.25, workers=16), L("miri", 0.0002, workers=16)],
        "digest_rule": "checked_and_wrapping_builds_disagree",
        "assumptions": COMMON_ASSUME + ["the checked and wrapping lanes run the same seeded cases (same sharding), so per-case output digests are comparable"],
        "exhaustive_notes": ["all 65536 values of each 16-bit format", "all 65536 RGB5A3 values", "ETC1: all table pairs x flip x mode, every selector at every position for every table, every base/delta pair with sum in 0..=31, all 256 individual nibble pairs, all alpha nibbles x positions", "thorough: all 4096 CI8 sizes 1..=64 x 1..=64"],
    },
    "C20": {
        "quick": [L("checked", 1.0), L("wrapping", 0.5)],
        "thorough": [L("checked", 1.0), L("wrapping", 0.5), L("asan", 0.25), L("memcheck", 0.005, workers=16), L("miri", 0.0003, workers=16)],
        "assumptions": COMMON_ASSUME + ["CGFX self-relative offsets are generated non-negative only (real files never point backwards)"],
    },
    "C02": {
        "quick": [L("checked", 1.0), L("wrapping", 0.25), L("checked", 1.0, mode="det", replicas=8)],
        "thorough": [L("checked", 1.0), L("wrapping", 0.25), L("checked", 1.0, mode="det", replicas=16),
                     L("wrapping", 1.0, mode="det", replicas=8), L("miri", 0.00002, workers=8)],
        "digest_rule": "nondeterministic_across_processes",
        "assumptions": COMMON_ASSUME + ["determinism is probabilistic evidence over hash-key draws (each map instance and each process has its own keys)"],
    },
}
