#!/usr/bin/env python3
"""Save evaluated candidate changes of one wave as /verif/seeded/<id>/ (patch.diff, demo.rs, meta.json).

  tools/savewave.py --wave "<description>" --letter d --results a.jsonl b.jsonl [--rerun c.jsonl ...]
                    [--history notes.json]

`--results` are evalmut outputs with confirmation (first evaluation); `--rerun` are later evalmut
outputs for the same candidates (after strengthening); the latest result per candidate decides
`detected_by`, the first one is kept as `first_evaluation`. `--history` maps candidate dir (or id)
to the text saying what was strengthened / why it is not detected. Ids: <property>-<letter><k>,
k counting per property in candidate order. Only candidates whose three facts were confirmed are kept.
"""
import json
import os
import shutil
import sys

VERIF = os.path.dirname(os.path.dirname(os.path.abspath(__file__)))


def load(paths):
    out = {}
    for p in paths:
        for line in open(p):
            line = line.strip()
            if not line:
                continue
            try:
                r = json.loads(line)
            except Exception:
                continue
            out.setdefault(r["candidate"], []).append(r)
    return out


def main():
    a = sys.argv[1:]
    wave = letter = None
    results, rerun, hist = [], [], {}
    mode = None
    i = 0
    while i < len(a):
        if a[i] == "--wave":
            wave = a[i + 1]; i += 2; continue
        if a[i] == "--letter":
            letter = a[i + 1]; i += 2; continue
        if a[i] == "--history":
            hist = json.load(open(a[i + 1])); i += 2; continue
        if a[i] in ("--results", "--rerun"):
            mode = a[i]; i += 1; continue
        (results if mode == "--results" else rerun).append(a[i]); i += 1
    first = load(results)
    later = load(rerun)
    counters = {}
    saved = []
    for cand in sorted(first):
        r0 = first[cand][0]
        if not r0.get("valid"):
            print("skip (not confirmed):", cand, r0["confirm"].get("error", "")[:100])
            continue
        meta = json.load(open(cand + "/meta.json"))
        prop = meta.get("property") or r0["property"]
        k = counters.get(prop, 0) + 1
        counters[prop] = k
        sid = "%s-%s%d" % (prop, letter, k)
        allr = later.get(cand) or first[cand]
        detecting = [r for r in allr if r["detected_by"]]
        last = detecting[-1] if detecting else allr[-1]
        d = os.path.join(VERIF, "seeded", sid)
        os.makedirs(d, exist_ok=True)
        shutil.copyfile(cand + "/patch.diff", d + "/patch.diff")
        shutil.copyfile(cand + "/demo.rs", d + "/demo.rs")
        meta.pop("check_with", None)
        meta["id"] = sid
        meta["wave"] = wave
        meta["origin"] = cand
        meta["confirmed_by_me"] = r0["confirm"]
        meta["what_i_ran"] = [
            "tools/evalmut.py %s (scratch worktree + scratch harness copy; /repo untouched)" % cand,
            "cargo test (82 pass) with the patch; demo fails with / passes without the patch",
            "./check <prop> --tier quick, VERIF_SEED=1, against the patched worktree",
        ]
        meta["detected_by"] = last["detected_by"]
        meta["checks_run"] = [c["property"] for c in last["checks"]]
        meta["detection"] = [
            {"check": c["property"], "exit": c["exit"], "violation_signatures": c.get("signatures", []), "first_report": (c.get("first") or [""])[0]}
            for c in last["checks"] if c["exit"] == 1
        ]
        if cand in later:
            meta["first_evaluation"] = {"detected_by": r0["detected_by"], "checks": [(c["property"], c["exit"]) for c in r0["checks"]]}
        h = hist.get(cand) or hist.get(sid)
        if h:
            meta["history"] = h
        elif cand in later and not r0["detected_by"] and last["detected_by"]:
            meta["history"] = "missed by the checks as they were at the first evaluation; caught after strengthening (see the wave's notes in DESIGN section 10)"
        json.dump(meta, open(d + "/meta.json", "w"), indent=1, ensure_ascii=False)
        saved.append((sid, cand, last["detected_by"]))
    for s in saved:
        print(*s)
    print(len(saved), "saved;", sum(1 for s in saved if s[2]), "detected")


if __name__ == "__main__":
    main()
