#!/usr/bin/env python3
"""Regenerate the table of seeded changes in DESIGN.md §10 from /verif/seeded/*/meta.json."""
import glob, json, os, re
VERIF = os.path.dirname(os.path.dirname(os.path.abspath(__file__)))
rows = []
metas = []
for d in sorted(glob.glob(os.path.join(VERIF, "seeded", "*", "meta.json"))):
    m = json.load(open(d))
    metas.append(m)
    sig = []
    for det in m.get("detection", []):
        sig += det.get("violation_signatures", [])
    sig = [re.sub(r"/tmp/eval/slot\d+/wt", "/repo", x) for x in sig][:3]
    caught = ", ".join(m.get("detected_by", [])) or "**not detected** (see note)"
    if m.get("detected_tier"):
        caught += " - " + m["detected_tier"]
    rows.append("| `%s` | %s | %s | %s | %s |" % (
        m["id"], (m.get("title", "") or "").replace("|", "/").replace("\n", " ")[:120],
        (m.get("needs_to_manifest", "") or "").replace("|", "/").replace("\n", " ")[:180],
        caught, ", ".join("`%s`" % x for x in sig)))
total = len(metas)
det = sum(1 for m in metas if m.get("detected_by"))
thor_only = sum(1 for m in metas if m.get("detected_by") and m.get("detected_tier"))
hist = [m for m in metas if m.get("history")]
table = "| id | change | needs, to manifest | caught by | violation signatures |\n|----|--------|--------------------|-----------|----------------------|\n" + "\n".join(rows)
notes = "\n".join("* `%s`: %s" % (m["id"], m["history"]) for m in hist)
p = os.path.join(VERIF, "DESIGN.md")
s = open(p).read()
b, e = "<!-- SEEDED-TABLE-BEGIN -->", "<!-- SEEDED-TABLE-END -->"
block = "%s\n\n%d seeded changes are kept, %d of them detected (%d of those only by the thorough tier - a sanitizer lane or an input of several MB -, the rest by the quick tier).\n\n%s\n\nChanges that were missed at first (and what was strengthened), or are not detected:\n\n%s\n\n%s" % (b, total, det, thor_only, table, notes, e)
if b in s:
    s = s[:s.index(b)] + block + s[s.index(e) + len(e):]
else:
    raise SystemExit("markers not found in DESIGN.md")
open(p, "w").write(s)
print(total, det)
