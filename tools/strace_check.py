"""Offline checker for the strace lane of C12 (M-sys, DESIGN §2.1).

Reads the `strace -f -e trace=%file` logs written next to the worker outputs. Between the marker
syscalls stat("/VERIF_MARK/begin/<case>/<top>") and stat("/VERIF_MARK/end/<case>/<top>") only
library code (one LayeredFilesystem call and its follow-up calls) runs. Any successful syscall in
that window that creates, modifies or removes a path under a lower-layer root
(.../case<case>/L<k>/... with k < top) is a violation.
"""
import glob
import os
import re

MODIFYING = {"mkdir", "mkdirat", "unlink", "unlinkat", "rmdir", "rename", "renameat", "renameat2", "chmod", "fchmodat",
             "chown", "lchown", "fchownat", "truncate", "link", "linkat", "symlink", "symlinkat", "utime", "utimes",
             "utimensat", "futimesat", "mknod", "mknodat", "setxattr", "lsetxattr", "removexattr", "lremovexattr", "creat"}
OPENERS = {"open", "openat", "openat2"}
WRITE_FLAGS = ("O_WRONLY", "O_RDWR", "O_CREAT", "O_TRUNC", "O_APPEND")
LINE = re.compile(r"^(\d+)\s+(\w+)\((.*)\)\s+=\s+(-?\d+|\?)(.*)$")
MARK = re.compile(r'"/VERIF_MARK/(begin|end)/(\d+)/(\d+)"')
LAYER = re.compile(r"/case(\d+)/L(\d+)(?:/|$)")
PATHS = re.compile(r'"((?:[^"\\]|\\.)*)"')


def run(prop, outdir, merged):
    viol = []
    calls = 0
    syscalls = 0
    modifying_top = 0
    unresolved = 0
    logs = glob.glob(os.path.join(outdir, "*.strace"))
    for log in logs:
        state = {}  # pid -> (case, top)
        with open(log, errors="replace") as f:
            for line in f:
                m = LINE.match(line)
                if not m:
                    continue
                pid, name, args, ret = m.group(1), m.group(2), m.group(3), m.group(4)
                mk = MARK.search(args)
                if mk:
                    if mk.group(1) == "begin":
                        state[pid] = (int(mk.group(2)), int(mk.group(3)))
                        calls += 1
                    else:
                        state.pop(pid, None)
                    continue
                if pid not in state:
                    continue
                syscalls += 1
                case, top = state[pid]
                is_mod = name in MODIFYING or (name in OPENERS and any(fl in args for fl in WRITE_FLAGS))
                if not is_mod:
                    continue
                if ret == "?" or ret.startswith("-"):
                    continue  # failed: nothing was modified
                paths = PATHS.findall(args)
                hit = False
                for p in paths:
                    lm = LAYER.search(p)
                    if lm:
                        hit = True
                        if int(lm.group(1)) == case and int(lm.group(2)) < top:
                            viol.append({"property": prop, "lane": "strace", "seed": None, "tier": None, "case": case, "label": "strace_check",
                                         "kind": "lower_layer_syscall", "signature": "lower_layer_syscall:%s" % name,
                                         "message": "during a library call of case %d (top layer L%d) a successful %s touched lower-layer path %s: %s" % (case, top, name, p, line.strip()[:300])})
                        elif int(lm.group(2)) == top:
                            modifying_top += 1
                if not hit and paths and not paths[0].startswith("/"):
                    unresolved += 1
    cov = {"strace_logs": len(logs), "strace_library_calls_delimited": calls, "strace_syscalls_inspected": syscalls,
           "strace_modifying_syscalls_on_top_layer": modifying_top, "strace_relative_modifying_paths_unresolved": unresolved}
    if logs and calls == 0:
        viol = []
        merged.setdefault("harness_errors", []).append("strace lane ran but no marker syscalls were found in the logs")
    return viol[:20], cov
